#!/bin/bash
# seed_matrix.sh [ids...]: applies every seeded change to /repo in turn, runs the quick check of the property it
# breaks, reverts, and records the outcome in seeded/<id>/detect.json and seeded/MATRIX.md.
cd /verif
ids=${@:-$(ls seeded | grep -E '^C[0-9]+-m[0-9]+$')}
for id in $ids; do
  d=/verif/seeded/$id
  prop=${id%%-*}
  patch=$d/patch.diff
  [ -f $d/patch_rebased.diff ] && patch=$d/patch_rebased.diff
  if ! grep -q "\"property_id\": \"$prop\"" MANIFEST.json; then
    echo "{\"property\":\"$prop\",\"check\":\"none registered\",\"detected\":false}" > $d/detect.json
    echo "$id: no check"; continue
  fi
  if ! git -C /repo apply --check $patch 2>/dev/null; then
    echo "{\"property\":\"$prop\",\"detected\":false,\"note\":\"patch does not apply to the current /repo HEAD\"}" > $d/detect.json
    echo "$id: patch does not apply"; continue
  fi
  cp evidence/$prop.json /tmp/sm_ev.$$ 2>/dev/null
  git -C /repo apply $patch
  s=$(date +%s)
  timeout 3000 ./bin/vp check $prop --tier quick > /tmp/sm_$id.log 2>&1; rc=$?
  e=$(date +%s)
  git -C /repo checkout -- .
  [ -f /tmp/sm_ev.$$ ] && mv /tmp/sm_ev.$$ evidence/$prop.json
  nv=$(grep -c "^VIOLATION" /tmp/sm_$id.log)
  first=$(grep -m1 "obligation=" /tmp/sm_$id.log | sed 's/.*obligation=//; s/"//g' | cut -c1-120)
  [ -z "$first" ] && first=$(grep -m1 "confirmed on the real search" /tmp/sm_$id.log | cut -c1-160)
  det=false; [ $rc -eq 1 ] && det=true
  python3 - "$d/detect.json" "$prop" "$rc" "$nv" "$first" "$((e-s))" "$det" "$(basename $patch)" <<'PY'
import json,sys
f,prop,rc,nv,first,secs,det,patch=sys.argv[1:]
json.dump({"property":prop,"check":"bin/vp check %s --tier quick"%prop,"patch":patch,"exit":int(rc),"violation_lines":int(nv),"first_violated_obligation":first,"seconds":int(secs),"detected":det=="true"},open(f,'w'),indent=1)
PY
  echo "$id: rc=$rc violations=$nv ($((e-s))s) $first"
done
python3 - <<'PY'
import json,os,glob
rows=[]
for d in sorted(glob.glob('/verif/seeded/C*-m*')):
    i=os.path.basename(d)
    try: det=json.load(open(d+'/detect.json'))
    except Exception: continue
    try: meta=json.load(open(d+'/meta.json'))
    except Exception: meta={}
    rows.append((i,det,meta))
with open('/verif/seeded/MATRIX.md','w') as f:
    f.write("# Seeded changes vs quick checks\n\n| change | property | detected | exit | first violated obligation / note | what it needs to manifest |\n|---|---|---|---|---|---|\n")
    for i,det,meta in rows:
        need=str(meta.get('needs_to_manifest',meta.get('summary','')))[:160].replace('|','/').replace('\n',' ')
        f.write("| %s | %s | %s | %s | %s | %s |\n"%(i,det.get('property'),'yes' if det.get('detected') else 'NO',det.get('exit',''),(det.get('first_violated_obligation') or det.get('note') or det.get('check',''))[:110].replace('|','/'),need))
    n=sum(1 for _,d,_ in rows if d.get('detected'))
    f.write("\n%d of %d seeded changes are reported as VIOLATION (exit 1) by the quick check of their property.\n"%(n,len(rows)))
print(open('/verif/seeded/MATRIX.md').read()[-200:])
PY
