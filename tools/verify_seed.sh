#!/bin/bash
# verify_seed.sh <srcdir> : confirms a seeded change (patch.diff + demo.sh) in a scratch worktree:
# applies, builds, runs the whole existing test suite, runs the demo with and without the patch.
# Writes <srcdir>/verify.json. Removes the worktree afterwards.
src=$1
export PATH=/opt/veriftools/go1.26.8/bin:$PATH GOFLAGS=-mod=mod GOPROXY=off GOSUMDB=off GOTOOLCHAIN=local
name=$(echo "$src" | tr '/' '_')
wt=/tmp/vs$name
git -C /repo worktree remove --force $wt >/dev/null 2>&1
git -C /repo worktree add --detach $wt >/dev/null 2>&1 || { echo "worktree failed"; exit 2; }
res() { echo "{\"apply\":\"$1\",\"build\":\"$2\",\"suite\":\"$3\",\"demo_patched\":\"$4\",\"demo_pristine\":\"$5\"}" > $src/verify.json; cat $src/verify.json; }
# demo on pristine
bash $src/demo.sh $wt >/tmp/vs$name.pristine.log 2>&1; dp=$?
(cd $wt && git checkout -q -- . && git clean -fdq)
if ! git -C $wt apply $src/patch.diff; then res fail - - - $dp; git -C /repo worktree remove --force $wt; exit 1; fi
if ! (cd $wt && go build ./... ) >/tmp/vs$name.build.log 2>&1; then res ok fail - - $dp; git -C /repo worktree remove --force $wt; exit 1; fi
(cd $wt && go test -vet=off -count=1 -timeout 25m ./... ) >/tmp/vs$name.suite.log 2>&1; st=$?
bash $src/demo.sh $wt >/tmp/vs$name.patched.log 2>&1; dq=$?
res ok ok $st $dq $dp
git -C /repo worktree remove --force $wt
rm -f /tmp/vs$name.*.log
