#!/bin/bash
# try_seed.sh <patch.diff> <prop> [tier]: applies the patch to /repo, runs the check, reverts. Prints the exit code.
patch=$1; prop=$2; tier=${3:-quick}
git -C /repo apply $patch || { echo "apply failed"; exit 9; }
cp /verif/evidence/$prop.json /tmp/try_seed.$$.ev 2>/dev/null
cd /verif && ./bin/vp check $prop --tier $tier > /tmp/try_seed.$$.log 2>&1; rc=$?
git -C /repo checkout -- .
[ -f /tmp/try_seed.$$.ev ] && mv /tmp/try_seed.$$.ev /verif/evidence/$prop.json
grep -E "VIOLATION|KNOWN|INCONCLUSIVE|BROKEN|obligations" /tmp/try_seed.$$.log | head -12
echo "exit=$rc"
rm -f /tmp/try_seed.$$.log
