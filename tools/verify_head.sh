#!/bin/bash
# verify_head.sh <id>... : re-confirms seeded changes on the CURRENT /repo HEAD (after the fix: commits), using
# patch_rebased.diff where one exists: applies, builds, whole suite, demo with and without. Writes seeded/<id>/verify_head.json.
export PATH=/opt/veriftools/go1.26.8/bin:$PATH GOFLAGS=-mod=mod GOPROXY=off GOSUMDB=off GOTOOLCHAIN=local
for id in "$@"; do
  src=/verif/seeded/$id
  patch=$src/patch.diff; [ -f $src/patch_rebased.diff ] && patch=$src/patch_rebased.diff
  wt=/tmp/vh_$id
  git -C /repo worktree remove --force $wt >/dev/null 2>&1
  git -C /repo worktree add --detach $wt >/dev/null 2>&1 || { echo "$id worktree failed"; continue; }
  bash $src/demo.sh $wt >/tmp/vh_$id.pristine.log 2>&1; dp=$?
  (cd $wt && git checkout -q -- . && git clean -fdq)
  ap=ok; bd=-; st=-; dq=-
  if git -C $wt apply $patch; then
    if (cd $wt && go build ./...) >/tmp/vh_$id.build.log 2>&1; then
      bd=ok
      (cd $wt && go test -vet=off -count=1 -timeout 25m ./...) >/tmp/vh_$id.suite.log 2>&1; st=$?
      bash $src/demo.sh $wt >/tmp/vh_$id.patched.log 2>&1; dq=$?
    else bd=fail; fi
  else ap=fail; fi
  echo "{\"head\":\"$(git -C /repo rev-parse --short HEAD)\",\"patch\":\"$(basename $patch)\",\"apply\":\"$ap\",\"build\":\"$bd\",\"suite\":\"$st\",\"demo_patched\":\"$dq\",\"demo_pristine\":\"$dp\"}" > $src/verify_head.json
  echo "$id $(cat $src/verify_head.json)"
  git -C /repo worktree remove --force $wt
  [ "$st" = "0" ] && rm -f /tmp/vh_$id.*.log
done
