#!/usr/bin/env python3
"""Regenerates /verif/MANIFEST.json from the table below (kept in one place so it stays valid)."""
import json, os
V = '/verif'
props = [json.loads(l) for l in open(f'{V}/properties.jsonl')]
TECH = "bounded symbolic execution of the real go/ssa + SMT (z3) verdict over all inputs in the bound"
STEP_NOTE = "Trusted: go/ssa, my SSA->SMT encoder (randomized differential test of the simplifier; every counterexample replayed natively), z3, and the mailbox specification layer in harness/board/spec.go, which is itself compared natively with the engine on ~7500 positions from the repo's own tests on each run of C01/C09. Slider lookups are summarised by the ray walk only for squares whose C12 lemma was re-proved on the same run."
checks = {
 "C01": dict(text="Solver verdict over ARBITRARY valid positions (64 symbolic cells, rights, e.p.; no material bound): per (side, from-square) the generator emits each encoding at most once and exactly the FIDE pseudo-legal ones (to-square and promotion bits symbolic); per concrete (side, from, to, promotion) the make-move + in-check filter rejects exactly the moves that leave the king attacked in the rule-book successor. Together: playable set == legal set, for positions however reached (the successor-validity induction is C02).",
             note=STEP_NOTE+" Quick tier covers a seeded subset of the case split (stated in evidence.bounds), thorough all of it.", ref="DESIGN.md §4 C01"),
 "C02": dict(text="One symbolic MakeMove step from an arbitrary valid position per concrete (side, from, to, promotion) case: placement, side to move, castling rights, both counters and the e.p. target (iff a legal e.p. capture exists in the successor) equal the mailbox rule-book successor, and the successor is valid again, so chains of any length follow by induction.",
             note=STEP_NOTE+" Known finding (halfmove clock int8 wrap at 127) is excluded by an explicit assumption and reproduced by a witness instance on every run.", ref="DESIGN.md §4 C02"),
 "C03": dict(text="One symbolic make+undo step (and null make+undo) from an arbitrary valid position with a symbolic hash history: every attribute (three placement encodings, rights, e.p., counters, history length and entries) is identical afterwards, for every pseudo-legal move of the case split; nesting depth follows by induction; histories around the slice capacity 128 included.",
             note=STEP_NOTE, ref="DESIGN.md §4 C03"),
 "C04": dict(text="One symbolic MakeMove / MakeNullMove step from an arbitrary valid position whose stored hash equals the from-scratch hash: afterwards the incremental hash equals the recomputed hash (64-bit Zobrist keys from the real init code) and the three placement encodings agree; the from-scratch hash is shown to be a function of placement/side/rights/e.p. only. Any interleaving of moves and null moves follows by induction.",
             note=STEP_NOTE, ref="DESIGN.md §4 C04"),
 "C05": dict(text="Solver verdict over ARBITRARY valid positions x all 512 encodings per from-square (to-square and the three promotion bits symbolic): IsPseudoLegal accepts an encoding iff the generator (both halves, observed at move.Store.Alloc) emits it.",
             note=STEP_NOTE+" The defect found (promotion bits on non-promoting pawn moves) was repaired by a fix: commit; the check is unchanged.", ref="DESIGN.md §4 C05"),
 "C09": dict(text="Solver verdict over ARBITRARY valid positions with engine-normalised e.p. state, case split on (side, king square): IsCheckmate / IsStalemate answer true exactly when an independent mailbox specification finds no legal move (and in-check agrees with geometry).",
             note=STEP_NOTE+" The defect found (e.p. interposition reported as mate) was repaired by a fix: commit.", ref="DESIGN.md §4 C09"),
 "C12": dict(text="Solver verdict (unsat) over ALL 2^64 occupancies for each of the 64 squares and both slider kinds that the real magic lookup (mask, multiply, shift, table cell from the real init code) equals a ray walk; leapers, pawn helpers and InBetween likewise for every square/set/pair. No bound inside the property's domain, so this is exhaustive by solver.",
             note="Trusted: go/ssa's translation of the source, my SSA->SMT encoder (validated by a randomized differential test of the simplifier and by native replay of every counterexample), z3. Table contents come from running the real init code natively on each run.",
             ref="DESIGN.md §4 C12"),
 "C14": dict(text="Solver verdict over all five 64-bit clock fields and both colours inside the stated ranges (1..10^12 ms, increments to 10^9 ms) that the hard deadline is positive, within the remaining time, keeps the 30 ms margin, equals the move time when one is given, and (2-safety) does not depend on the opponent's clock; also that the nanosecond conversion arming the timer cannot overflow.",
             note="Trusted: encoder + z3. The timer/goroutine that consumes the value is outside (C13 not applicable).",
             ref="DESIGN.md §4 C14"),
 "C15": dict(text="One inductive step of Insert / LookUp / Clear from an ARBITRARY table state (every bucket word and entry symbolic) satisfying the bucket invariant, for all hashes, generations (wrap included), depths/plies 0..63, scores -10001..10001 and bound types: probe-after-store content incl. mate re-basing and keep-move, keep-deeper rule, no phantom hits for other keys, at most one eviction, invariant preserved; match64 == first matching lane for every word/key; bucket index in range for every supported size.",
             note="Trusted: encoder + z3. Resize (unsafe) is not encoded: 'resize then clear' is modelled as a cleared table of the new length.", ref="DESIGN.md §4 C15"),
 "C16": dict(text="Partial: the history clauses of the property. Every update of the three history tables from any in-band value with any 16-bit bonus stays within +-1024 (inductive step); quiet ranks lie in +-3072 and never equal the duplicate sentinel nor reach a capture band; noisy ranks always lie in a capture band (SEE abstracted as an arbitrary boolean).",
             note="Trusted: encoder + z3. NOT yet covered by this check: the staged iteration of the picker itself (each pseudo-legal move yielded exactly once, hash move first); it inherits C05 for the hash-move gate.", ref="DESIGN.md §4 C16"),
 "C20": dict(text="Partial: the arithmetic core. Feistel network injective and in range for every bit width 1..64, every seed and ANY round function (uninterpreted); shuffleIndex as a whole a permutation for small n (exact-encoding fallback when an abstract counterexample does not replay); Batches tile [0,n) for every n <= 500000; Chunks tile every batch by induction on the real iterator.",
             note="Trusted: encoder + z3. NOT covered: the file-backed manifest/reader (NewChunker, ByLines.Read, Chunk.Read) - the confirmed blank-line offset defect lives there and is recorded in DESIGN.md; that part is outside this check's claim.", ref="DESIGN.md §4 C20"),
}
na = {
 "C13": "goroutine interleavings, channels, timers and bufio/sync.Pool are the property's subject; a symbolic executor over go/ssa cannot encode the Go scheduler/runtime without replacing the real code by a model (DESIGN.md §5)",
 "C19": "float64 arithmetic through math.Exp and reflect-based vector mapping cannot be encoded faithfully in SMT (floats-as-reals is the failure mode to avoid); tuner module does not build offline (DESIGN.md §5)",
}
m = {"version":1,
 "setup_cmd":"./setup.sh",
 "hooks":{"guard":"verif","enable":"no source hooks: harnesses (/verif/harness/<pkg>/*.go) are injected as in-package files through go/packages and `go test -overlay` overlays; /repo is never modified by a check","baseline_off_cmd":"cd /repo && PATH=/opt/veriftools/go1.26.8/bin:$PATH GOFLAGS=-mod=mod GOPROXY=off GOSUMDB=off GOTOOLCHAIN=local go test -vet=off -count=1 -timeout 25m ./...","source_commits":[],"add_only":True},
 "engines":[{"name":"vp","path":"engine","serves_properties":sorted(checks),"kind_free_text":"own go/ssa -> SMT-LIB2 guarded symbolic executor (engine/exec), term simplifier (engine/sym), z3 5.1/4.8 portfolio, native replay of solver models through go test -overlay"}],
 "checks":[], "not_applicable":[]}
for p in props:
    i = p['id']
    if i in checks:
        c = checks[i]
        m["checks"].append({"property_id":i,
          "quick_cmd":f"bin/vp check {i} --tier quick",
          "thorough_cmd":f"bin/vp check {i} --tier thorough",
          "evidence_file":f"/verif/evidence/{i}.json",
          "replay_cmd_template":"bin/vp replay {path}",
          "engine":"vp",
          "level_claimed":{"category":"model_checking","text":c["text"],"design_ref":c["ref"]},
          "level_note":c["note"],
          "technique":c.get("tech",TECH)})
    else:
        m["not_applicable"].append({"property_id":i,"reason":na.get(i,"check not built yet (work in progress; planned per DESIGN.md §4)")})
json.dump(m, open(f'{V}/MANIFEST.json','w'), indent=1)
print("checks:", [c["property_id"] for c in m["checks"]])
