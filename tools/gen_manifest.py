#!/usr/bin/env python3
"""Regenerates /verif/MANIFEST.json from the table below (kept in one place so it stays valid)."""
import json, os
V = '/verif'
props = [json.loads(l) for l in open(f'{V}/properties.jsonl')]
TECH = "bounded symbolic execution of the real go/ssa + SMT (z3) verdict over all inputs in the bound"
checks = {
 "C12": dict(text="Solver verdict (unsat) over ALL 2^64 occupancies for each of the 64 squares and both slider kinds that the real magic lookup (mask, multiply, shift, table cell from the real init code) equals a ray walk; leapers, pawn helpers and InBetween likewise for every square/set/pair. No bound inside the property's domain, so this is exhaustive by solver.",
             note="Trusted: go/ssa's translation of the source, my SSA->SMT encoder (validated by a randomized differential test of the simplifier and by native replay of every counterexample), z3. Table contents come from running the real init code natively on each run.",
             ref="DESIGN.md §4 C12"),
 "C14": dict(text="Solver verdict over all five 64-bit clock fields and both colours inside the stated ranges (1..10^12 ms, increments to 10^9 ms) that the hard deadline is positive, within the remaining time, keeps the 30 ms margin, equals the move time when one is given, and (2-safety) does not depend on the opponent's clock; also that the nanosecond conversion arming the timer cannot overflow.",
             note="Trusted: encoder + z3. The timer/goroutine that consumes the value is outside (C13 not applicable).",
             ref="DESIGN.md §4 C14"),
}
na = {
 "C13": "goroutine interleavings, channels, timers and bufio/sync.Pool are the property's subject; a symbolic executor over go/ssa cannot encode the Go scheduler/runtime without replacing the real code by a model (DESIGN.md §5)",
 "C19": "float64 arithmetic through math.Exp and reflect-based vector mapping cannot be encoded faithfully in SMT (floats-as-reals is the failure mode to avoid); tuner module does not build offline (DESIGN.md §5)",
}
m = {"version":1,
 "setup_cmd":"./setup.sh",
 "hooks":{"guard":"verif","enable":"no source hooks: harnesses (/verif/harness/<pkg>/*.go) are injected as in-package files through go/packages and `go test -overlay` overlays; /repo is never modified by a check","baseline_off_cmd":"cd /repo && PATH=/opt/veriftools/go1.26.8/bin:$PATH GOFLAGS=-mod=mod GOPROXY=off GOSUMDB=off GOTOOLCHAIN=local go test -vet=off -count=1 -timeout 25m ./...","source_commits":[],"add_only":True},
 "engines":[{"name":"vp","path":"engine","serves_properties":sorted(checks),"kind_free_text":"own go/ssa -> SMT-LIB2 guarded symbolic executor (engine/exec), term simplifier (engine/sym), z3 5.1/4.8 portfolio, native replay of solver models through go test -overlay"}],
 "checks":[], "not_applicable":[]}
for p in props:
    i = p['id']
    if i in checks:
        c = checks[i]
        m["checks"].append({"property_id":i,
          "quick_cmd":f"bin/vp check {i} --tier quick",
          "thorough_cmd":f"bin/vp check {i} --tier thorough",
          "evidence_file":f"/verif/evidence/{i}.json",
          "replay_cmd_template":"bin/vp replay {path}",
          "engine":"vp",
          "level_claimed":{"category":"model_checking","text":c["text"],"design_ref":c["ref"]},
          "level_note":c["note"],
          "technique":c.get("tech",TECH)})
    else:
        m["not_applicable"].append({"property_id":i,"reason":na.get(i,"check not built yet (work in progress; planned per DESIGN.md §4)")})
json.dump(m, open(f'{V}/MANIFEST.json','w'), indent=1)
print("checks:", [c["property_id"] for c in m["checks"]])
