#!/bin/bash
# run_all.sh [tier] [ids...]: runs the registered checks one after another, logs under /tmp/runall/
tier=${1:-quick}; shift
ids=${@:-$(python3 -c "import json;print(' '.join(c['property_id'] for c in json.load(open('/verif/MANIFEST.json'))['checks']))")}
mkdir -p /tmp/runall
cd /verif
for id in $ids; do
  s=$(date +%s)
  ./bin/vp check $id --tier $tier > /tmp/runall/$id.$tier.log 2>&1; rc=$?
  e=$(date +%s)
  echo "$id rc=$rc $((e-s))s $(tail -1 /tmp/runall/$id.$tier.log)"
done
