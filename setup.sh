#!/bin/sh
# Builds the verification engine offline from files on disk only.
set -e
cd "$(dirname "$0")/engine"
export PATH=/opt/veriftools/go1.26.8/bin:$PATH GOFLAGS=-mod=mod GOPROXY=off GOSUMDB=off GOTOOLCHAIN=local
mkdir -p ../bin
go build -o ../bin/vp ./cmd/vp
