module vp

go 1.26.8

require golang.org/x/tools v0.50.0
