// Package run loads /repo with the harness overlay, builds SSA, dumps post-init globals natively,
// runs harnesses through the symbolic executor and discharges their obligations with SMT solvers.
package run

import (
	"encoding/json"
	"fmt"
	"go/types"
	"os"
	"os/exec"
	"path/filepath"
	"sort"
	"strconv"
	"strings"
	"time"

	"golang.org/x/tools/go/packages"
	"golang.org/x/tools/go/ssa"
	"golang.org/x/tools/go/ssa/ssautil"

	vexec "vp/exec"
	"vp/sym"
)

const ModPath = "github.com/paulsonkoly/chess-3"

type World struct {
	RepoDir    string
	HarnessDir string
	Tags       string
	Prog       *ssa.Program
	Pkgs       map[string]*ssa.Package // by import path
	TPkgs      map[string]*packages.Package
	Overlay    map[string]string // virtual path -> real path
	TmpDir     string
	dump       map[string]map[string]json.RawMessage // pkg path -> var -> json
	Virtual    map[string][]string
	scratch    string
	LoadTime   time.Duration
	DumpTime   time.Duration
}

func GoEnv() []string {
	env := os.Environ()
	out := env[:0:0]
	for _, e := range env {
		if strings.HasPrefix(e, "PATH=") || strings.HasPrefix(e, "GOFLAGS=") || strings.HasPrefix(e, "GOPROXY=") ||
			strings.HasPrefix(e, "GOSUMDB=") || strings.HasPrefix(e, "GOTOOLCHAIN=") || strings.HasPrefix(e, "GOWORK=") {
			continue
		}
		out = append(out, e)
	}
	out = append(out, "PATH=/opt/veriftools/go1.26.8/bin:"+os.Getenv("PATH"), "GOFLAGS=-mod=mod", "GOPROXY=off", "GOSUMDB=off", "GOTOOLCHAIN=local", "GOWORK=off")
	return out
}

// Load loads the given repo packages (relative dirs like "board", "uci") plus the vp support package.
func Load(repoDir, harnessDir string, pkgDirs []string, tags string) (*World, error) {
	return LoadV(repoDir, harnessDir, pkgDirs, tags, nil)
}

// LoadV is Load with virtual packages: virt maps a directory name (created only in the overlay, directly under the
// repository root) to repo-relative source files that are presented there, so that code of the separate tuner
// module (whose dependencies are not available offline) can be loaded from /repo's working tree as a package of
// the main module together with its harness.
func LoadV(repoDir, harnessDir string, pkgDirs []string, tags string, virt map[string][]string) (*World, error) {
	t0 := time.Now()
	w := &World{Virtual: virt, RepoDir: repoDir, HarnessDir: harnessDir, Tags: tags, Pkgs: map[string]*ssa.Package{}, TPkgs: map[string]*packages.Package{}, Overlay: map[string]string{}}
	tmp, err := os.MkdirTemp("", "vp-")
	if err != nil {
		return nil, err
	}
	w.TmpDir = tmp
	// overlay: every harness file harness/<dir>/<f>.go -> repo/<dir>/zz_vp_<f>.go
	entries, err := os.ReadDir(harnessDir)
	if err != nil {
		return nil, err
	}
	for _, e := range entries {
		if !e.IsDir() {
			continue
		}
		files, _ := filepath.Glob(filepath.Join(harnessDir, e.Name(), "*.go"))
		for _, f := range files {
			// snapshot the harness file so that the symbolic run and its native replays see the same text
			data, err := os.ReadFile(f)
			if err != nil {
				return nil, err
			}
			cp := filepath.Join(tmp, "harness_"+e.Name()+"_"+filepath.Base(f))
			if err := os.WriteFile(cp, data, 0o644); err != nil {
				return nil, err
			}
			w.Overlay[filepath.Join(repoDir, e.Name(), "zz_vp_"+filepath.Base(f))] = cp
		}
	}
	for vdir, files := range virt {
		for _, rel := range files {
			w.Overlay[filepath.Join(repoDir, vdir, filepath.Base(rel))] = filepath.Join(repoDir, rel)
		}
	}
	ov := map[string][]byte{}
	for v, r := range w.Overlay {
		data, err := os.ReadFile(r)
		if err != nil {
			return nil, err
		}
		ov[v] = data
	}
	patterns := []string{ModPath + "/vp"}
	for _, d := range pkgDirs {
		patterns = append(patterns, ModPath+"/"+d)
	}
	cfg := &packages.Config{
		Mode: packages.NeedName | packages.NeedFiles | packages.NeedCompiledGoFiles | packages.NeedImports | packages.NeedDeps |
			packages.NeedTypes | packages.NeedTypesSizes | packages.NeedSyntax | packages.NeedTypesInfo | packages.NeedModule,
		Dir:     repoDir,
		Env:     GoEnv(),
		Overlay: ov,
	}
	if tags != "" {
		cfg.BuildFlags = []string{"-tags=" + tags}
	}
	pkgs, err := packages.Load(cfg, patterns...)
	if err != nil {
		return nil, err
	}
	nerr := 0
	packages.Visit(pkgs, nil, func(p *packages.Package) {
		for _, e := range p.Errors {
			fmt.Fprintf(os.Stderr, "load error: %v\n", e)
			nerr++
		}
	})
	if nerr > 0 {
		return nil, fmt.Errorf("%d package load errors (does /repo compile with the harness overlay?)", nerr)
	}
	prog, spkgs := ssautil.AllPackages(pkgs, ssa.InstantiateGenerics)
	prog.Build()
	w.Prog = prog
	packages.Visit(pkgs, nil, func(p *packages.Package) { w.TPkgs[p.PkgPath] = p })
	for i, p := range pkgs {
		if spkgs[i] != nil {
			w.Pkgs[p.PkgPath] = spkgs[i]
		}
	}
	for _, sp := range prog.AllPackages() {
		if _, ok := w.Pkgs[sp.Pkg.Path()]; !ok {
			w.Pkgs[sp.Pkg.Path()] = sp
		}
	}
	w.LoadTime = time.Since(t0)
	return w, nil
}

func (w *World) Close() {
	if w.TmpDir != "" {
		os.RemoveAll(w.TmpDir)
	}
}

// Func finds a function "pkgdir.Name" e.g. "uci.VpH_C14".
func (w *World) Func(pkgDir, name string) *ssa.Function {
	p := w.Pkgs[ModPath+"/"+pkgDir]
	if p == nil {
		return nil
	}
	return p.Func(name)
}

// overlayJSON writes the overlay file (with extra generated files) and returns its path.
func (w *World) overlayJSON(extra map[string]string, name string) (string, error) {
	m := map[string]string{}
	for k, v := range w.Overlay {
		m[k] = v
	}
	for k, v := range extra {
		m[k] = v
	}
	data, _ := json.Marshal(map[string]any{"Replace": m})
	fn := filepath.Join(w.TmpDir, name)
	return fn, os.WriteFile(fn, data, 0o644)
}

func dumpable(t types.Type, depth int) bool {
	if depth > 12 {
		return false
	}
	switch u := t.Underlying().(type) {
	case *types.Basic:
		return u.Info()&(types.IsInteger|types.IsBoolean|types.IsString) != 0
	case *types.Array:
		return dumpable(u.Elem(), depth+1)
	case *types.Slice:
		return dumpable(u.Elem(), depth+1)
	case *types.Struct:
		for i := 0; i < u.NumFields(); i++ {
			if !dumpable(u.Field(i).Type(), depth+1) {
				return false
			}
		}
		return true
	case *types.Map:
		return dumpable(u.Key(), depth+1) && dumpable(u.Elem(), depth+1)
	}
	return false
}

// DumpGlobals runs the real init code natively and records every dumpable package-level variable.
func (w *World) DumpGlobals() error {
	t0 := time.Now()
	w.dump = map[string]map[string]json.RawMessage{}
	extra := map[string]string{}
	var pats []string
	dumpDir := filepath.Join(w.TmpDir, "dump")
	os.MkdirAll(dumpDir, 0o755)
	var paths []string
	for path := range w.TPkgs {
		paths = append(paths, path)
	}
	sort.Strings(paths)
	for _, path := range paths {
		p := w.TPkgs[path]
		if !strings.HasPrefix(path, ModPath+"/") || path == ModPath+"/vp" || len(p.GoFiles) == 0 {
			continue
		}
		if _, isVirt := w.Virtual[strings.TrimPrefix(path, ModPath+"/")]; isVirt {
			continue // overlay-only directory: cannot run a native test there; its globals keep their zero values
		}
		scope := p.Types.Scope()
		var names []string
		for _, n := range scope.Names() {
			v, ok := scope.Lookup(n).(*types.Var)
			if !ok || !dumpable(v.Type(), 0) {
				continue
			}
			names = append(names, n)
		}
		if len(names) == 0 {
			continue
		}
		var sb strings.Builder
		fmt.Fprintf(&sb, "package %s\n\nimport (\n\t\"testing\"\n\t\"%s/vp\"\n)\n\nfunc TestVpDumpGlobals(t *testing.T) {\n\tvp.DumpGlobals(%q, map[string]any{\n", p.Name, ModPath, strings.ReplaceAll(strings.TrimPrefix(path, ModPath+"/"), "/", "_"))
		for _, n := range names {
			fmt.Fprintf(&sb, "\t\t%q: &%s,\n", n, n)
		}
		sb.WriteString("\t})\n}\n")
		dir := filepath.Dir(p.GoFiles[0])
		real := filepath.Join(w.TmpDir, "dump_"+strings.ReplaceAll(strings.TrimPrefix(path, ModPath+"/"), "/", "_")+"_test.go")
		if err := os.WriteFile(real, []byte(sb.String()), 0o644); err != nil {
			return err
		}
		extra[filepath.Join(dir, "zz_vp_dump_test.go")] = real
		pats = append(pats, path)
	}
	ovf, err := w.overlayJSON(extra, "overlay_dump.json")
	if err != nil {
		return err
	}
	args := []string{"test", "-vet=off", "-count=1", "-overlay", ovf, "-run", "^TestVpDumpGlobals$"}
	if w.Tags != "" {
		args = append(args, "-tags="+w.Tags)
	}
	args = append(args, pats...)
	cmd := exec.Command("go", args...)
	cmd.Dir = w.RepoDir
	cmd.Env = append(GoEnv(), "VP_DUMP_DIR="+dumpDir)
	out, err := cmd.CombinedOutput()
	if err != nil {
		return fmt.Errorf("globals dump failed: %v\n%s", err, out)
	}
	for _, path := range pats {
		key := strings.ReplaceAll(strings.TrimPrefix(path, ModPath+"/"), "/", "_")
		data, err := os.ReadFile(filepath.Join(dumpDir, key+".json"))
		if err != nil {
			return fmt.Errorf("dump of %s missing: %v", path, err)
		}
		m := map[string]json.RawMessage{}
		if err := json.Unmarshal(data, &m); err != nil {
			return err
		}
		w.dump[path] = m
	}
	w.DumpTime = time.Since(t0)
	return nil
}

// GlobInit returns a function suitable for Exec.GlobInit bound to an executor.
func (w *World) GlobInit(x *vexec.Exec) func(g *ssa.Global) (vexec.Val, bool) {
	return func(g *ssa.Global) (vexec.Val, bool) {
		if g.Pkg == nil {
			return nil, false
		}
		m := w.dump[g.Pkg.Pkg.Path()]
		if m == nil {
			return nil, false
		}
		raw, ok := m[g.Name()]
		if !ok {
			return nil, false
		}
		et := g.Type().(*types.Pointer).Elem()
		return w.decode(x, raw, et), true
	}
}

type jStr struct {
	S *string `json:"s"`
}

func (w *World) decode(x *vexec.Exec, raw json.RawMessage, t types.Type) vexec.Val {
	c := x.C
	switch u := t.Underlying().(type) {
	case *types.Basic:
		if u.Info()&types.IsBoolean != 0 {
			var b bool
			json.Unmarshal(raw, &b)
			return c.Bool(b)
		}
		if u.Info()&types.IsString != 0 {
			var s jStr
			json.Unmarshal(raw, &s)
			if s.S == nil {
				return &vexec.StringV{}
			}
			return &vexec.StringV{Const: *s.S}
		}
		var s string
		json.Unmarshal(raw, &s)
		return c.Const(intWidth(u), parseInt(s))
	case *types.Array:
		return w.decodeSeq(x, raw, u.Elem(), int(u.Len()))
	case *types.Slice:
		arr := w.decodeSeq(x, raw, u.Elem(), -1)
		n := seqLen(arr)
		return x.MakeSliceOver(arr, n)
	case *types.Struct:
		var f struct {
			F []json.RawMessage `json:"f"`
		}
		json.Unmarshal(raw, &f)
		s := &vexec.StructV{F: make([]vexec.Val, u.NumFields())}
		for i := range s.F {
			s.F[i] = w.decode(x, f.F[i], u.Field(i).Type())
		}
		return s
	case *types.Map:
		var m struct {
			M [][2]json.RawMessage `json:"m"`
		}
		json.Unmarshal(raw, &m)
		kw := intWidth(u.Key().Underlying().(*types.Basic))
		mv := &vexec.MapV{KeyW: kw, Zero: x.Zero(u.Elem())}
		for _, kv := range m.M {
			k := w.decode(x, kv[0], u.Key()).(*sym.Term)
			mv.Keys = append(mv.Keys, k.C)
			mv.Vals = append(mv.Vals, w.decode(x, kv[1], u.Elem()))
		}
		return mv
	}
	panic(fmt.Sprintf("decode: unsupported type %v", t))
}

func intWidth(b *types.Basic) uint8 {
	switch b.Kind() {
	case types.Int8, types.Uint8:
		return 8
	case types.Int16, types.Uint16:
		return 16
	case types.Int32, types.Uint32:
		return 32
	case types.Bool:
		return 1
	}
	return 64
}

func parseInt(s string) uint64 {
	if strings.HasPrefix(s, "-") {
		v, _ := strconv.ParseInt(s, 10, 64)
		return uint64(v)
	}
	v, _ := strconv.ParseUint(s, 10, 64)
	return v
}

func seqLen(v vexec.Val) int {
	switch a := v.(type) {
	case *vexec.ArrayV:
		return len(a.E)
	case *vexec.TableV:
		return a.Dims[0]
	}
	return 0
}

// flatInts decodes a (nested) integer array into a flat table; ok=false if the element type is not an integer.
func (w *World) flatInts(raw json.RawMessage, t types.Type, out *[]uint64) bool {
	switch u := t.Underlying().(type) {
	case *types.Array:
		if b, ok := u.Elem().Underlying().(*types.Basic); ok && b.Info()&types.IsInteger != 0 {
			var c struct {
				I []int64  `json:"i"`
				U []string `json:"u"`
			}
			if err := json.Unmarshal(raw, &c); err != nil {
				return false
			}
			m := sym.Mask(intWidth(b))
			for _, v := range c.I {
				*out = append(*out, uint64(v)&m)
			}
			for _, v := range c.U {
				*out = append(*out, parseInt(v)&m)
			}
			return true
		}
		var elems []json.RawMessage
		if err := json.Unmarshal(raw, &elems); err != nil {
			return false
		}
		for _, e := range elems {
			if !w.flatInts(e, u.Elem(), out) {
				return false
			}
		}
		return true
	}
	return false
}

func arrayDims(t types.Type) (dims []int, elem types.Type) {
	for {
		a, ok := t.Underlying().(*types.Array)
		if !ok {
			return dims, t
		}
		dims = append(dims, int(a.Len()))
		t = a.Elem()
	}
}

func (w *World) decodeSeq(x *vexec.Exec, raw json.RawMessage, elem types.Type, n int) vexec.Val {
	// integer tables (possibly multi-dimensional) become compact TableV when large
	if n >= 0 {
		full := types.NewArray(elem, int64(n))
		dims, et := arrayDims(full)
		if b, ok := et.Underlying().(*types.Basic); ok && b.Info()&types.IsInteger != 0 {
			total := 1
			for _, d := range dims {
				total *= d
			}
			if total > 64 {
				var data []uint64
				if w.flatInts(raw, full, &data) && len(data) == total {
					return &vexec.TableV{T: &vexec.Table{Data: data, ElemW: intWidth(b)}, Dims: dims}
				}
			}
		}
	}
	if b, ok := elem.Underlying().(*types.Basic); ok && b.Info()&types.IsInteger != 0 {
		var c struct {
			I []int64  `json:"i"`
			U []string `json:"u"`
		}
		if err := json.Unmarshal(raw, &c); err == nil && (c.I != nil || c.U != nil) {
			wd := intWidth(b)
			a := &vexec.ArrayV{}
			for _, v := range c.I {
				a.E = append(a.E, x.C.Const(wd, uint64(v)))
			}
			for _, v := range c.U {
				a.E = append(a.E, x.C.Const(wd, parseInt(v)))
			}
			return a
		}
	}
	var elems []json.RawMessage
	json.Unmarshal(raw, &elems)
	a := &vexec.ArrayV{E: make([]vexec.Val, len(elems))}
	for i, e := range elems {
		a.E[i] = w.decode(x, e, elem)
	}
	return a
}

// ScratchModule materialises the virtual packages (and vp) as a real module with the main module's path, so that
// native replays of harnesses living in overlay-only packages can run (`go test` needs a real directory).
func (w *World) ScratchModule() (string, error) {
	if w.scratch != "" {
		return w.scratch, nil
	}
	dir := filepath.Join(w.TmpDir, "scratchmod")
	if err := os.MkdirAll(dir, 0o755); err != nil {
		return "", err
	}
	if err := os.WriteFile(filepath.Join(dir, "go.mod"), []byte("module "+ModPath+"\n\ngo 1.25.4\n"), 0o644); err != nil {
		return "", err
	}
	for virt, real := range w.Overlay {
		rel, err := filepath.Rel(w.RepoDir, virt)
		if err != nil {
			continue
		}
		top := strings.Split(rel, string(filepath.Separator))[0]
		if _, ok := w.Virtual[top]; !ok && top != "vp" {
			continue
		}
		data, err := os.ReadFile(real)
		if err != nil {
			return "", err
		}
		dst := filepath.Join(dir, rel)
		os.MkdirAll(filepath.Dir(dst), 0o755)
		if err := os.WriteFile(dst, data, 0o644); err != nil {
			return "", err
		}
	}
	w.scratch = dir
	return dir, nil
}
