package run

import (
	"runtime/debug"
	"encoding/json"
	"math/rand"
	"fmt"
	"os"
	"os/exec"
	"path/filepath"
	"sort"
	"strings"
	"sync"
	"time"

	vexec "vp/exec"
	"vp/sym"
)

type Options struct {
	LoopBound  int
	LoopBounds map[string]int
	PanicMode  string // "assert" (default), "assume", "ignore"
	UnwindMode string // "assume" (default: stated bound), "assert" (unwinding assertion)
	TimeoutMs  int
	NoReindex  bool
	NoVacuity  bool
	Hunt       bool // counterexample search only: an unknown/timeout is reported as "nothing found within the budget" (the bound is not claimed), a counterexample is replayed and reported as usual
	NoGroup    bool
	Abstract   bool // the harness runs against contracts (stubs): a counterexample is a path and cannot be replayed as is
	Sweep      bool // SAT-sweep the miter (merge solver-proved equivalent sub-terms bottom-up) before the final query
	Setup      func(x *vexec.Exec, w *World)
	Solver     string
}

type Instance struct {
	Prop   string
	Pkg    string // package directory of the harness, e.g. "uci"
	Func   string
	Params map[string]int64
	Opt    Options
	// ExpectViolations lists assertion labels whose violation is a recorded known finding (value = description)
	Known map[string]string
	// Exact is the same harness without abstractions (uninterpreted functions); it is run when a counterexample found
	// under the abstraction does not reproduce natively
	Exact *Instance
}

func (i Instance) Name() string {
	var ks []string
	for k := range i.Params {
		ks = append(ks, k)
	}
	sort.Strings(ks)
	s := i.Pkg + "." + i.Func
	for _, k := range ks {
		s += fmt.Sprintf(" %s=%d", k, i.Params[k])
	}
	return s
}

type ObResult struct {
	Label    string  `json:"label"`
	Kind     string  `json:"kind"` // assert | nopanic | unwind | cover
	Verdict  string  `json:"verdict"`
	Trivial  bool    `json:"closed_by_simplifier,omitempty"`
	Ms       float64 `json:"solver_ms"`
	Detail   string  `json:"detail,omitempty"`
	Model    map[string]uint64 `json:"-"`
	Replayed string  `json:"replay,omitempty"` // confirmed | not-reproduced | assume-failed | error
	ReplayPath string `json:"replay_path,omitempty"`
	Pos      string  `json:"pos,omitempty"`
}

type InstResult struct {
	Inst        Instance
	Obs         []ObResult
	Err         error
	ExecMs      float64
	SolverMs    float64
	Terms       int
	Defs        int
	Instrs      int
	Reindexed   int
	Unrolled    int
	Funcs       map[string]int
	Stubs       map[string]int
	Unwinds     []string
	NVars       int
	TermsBy     map[string]int
	OpHist      map[string]int
	SweepNote   string
	Queries     int
}

// Violations returns the obligations that were violated and confirmed by native replay.
func (r *InstResult) Violations() []ObResult {
	var out []ObResult
	for _, o := range r.Obs {
		if o.Verdict == "sat" && o.Kind != "cover" && o.Replayed == "confirmed" {
			out = append(out, o)
		}
	}
	return out
}

// Inconclusive reports obligations that neither closed nor were confirmed.
func (r *InstResult) Inconclusive() []ObResult {
	var out []ObResult
	for _, o := range r.Obs {
		switch {
		case o.Kind == "cover" && o.Verdict != "sat":
			out = append(out, o)
		case o.Kind != "cover" && o.Verdict == "unknown":
			out = append(out, o)
		case o.Kind != "cover" && o.Verdict == "sat" && o.Replayed != "confirmed":
			out = append(out, o)
		}
	}
	return out
}

func orAll(c *sym.Ctx, ts []*sym.Term) *sym.Term {
	if len(ts) == 0 {
		return c.False
	}
	return c.Or(ts...)
}

// RunInstance executes one harness instance symbolically and discharges its obligations.
func (w *World) RunInstance(inst Instance, s *sym.Pool) (res *InstResult) {
	res = &InstResult{Inst: inst}
	fn := w.Func(inst.Pkg, inst.Func)
	if fn == nil {
		res.Err = fmt.Errorf("harness %s.%s not found", inst.Pkg, inst.Func)
		return
	}
	c := sym.NewCtx()
	c.MaxTerms = 12_000_000
	if v := os.Getenv("VP_MAXTERMS"); v != "" {
		fmt.Sscan(v, &c.MaxTerms)
	}
	x := vexec.New(c, w.Prog)
	x.InstallVP(inst.Params)
	x.GlobInit = w.GlobInit(x)
	if inst.Opt.LoopBound > 0 {
		x.LoopBound = inst.Opt.LoopBound
	}
	for k, v := range inst.Opt.LoopBounds {
		x.LoopBounds[k] = v
	}
	x.Reindex = !inst.Opt.NoReindex
	x.Trace = os.Getenv("VP_TRACE") != ""
	if inst.Opt.Setup != nil {
		inst.Opt.Setup(x, w)
	}
	t0 := time.Now()
	func() {
		defer func() {
			if r := recover(); r != nil {
				if ee, ok := r.(*vexec.ExecError); ok {
					res.Err = fmt.Errorf("not encodable: %s", ee.Msg)
					return
				}
				if tb, ok := r.(sym.TermBudget); ok {
					res.Err = fmt.Errorf("term budget exceeded (%d terms) - encoding blew up", tb.N)
					if os.Getenv("VP_DEBUG") != "" {
						fmt.Println(string(debug.Stack()))
					}
					return
				}
				res.Err = fmt.Errorf("executor crashed: %v", r)
				if os.Getenv("VP_DEBUG") != "" {
					fmt.Println(string(debug.Stack()))
				}
			}
		}()
		if err := x.Run(fn); err != nil {
			res.Err = fmt.Errorf("not encodable: %v", err)
		}
	}()
	res.ExecMs = float64(time.Since(t0).Microseconds()) / 1000
	res.Terms = c.NTerms
	res.Instrs = x.InstrCount
	res.Reindexed = x.NReindexed
	res.Unrolled = x.NUnrolled
	res.Funcs = x.FuncsSeen
	res.Stubs = x.StubCalls
	res.NVars = len(c.Vars)
	res.TermsBy = x.TermsBy
	res.OpHist = c.OpHist()
	if res.Err != nil {
		return
	}
	for _, u := range x.Unwinds {
		res.Unwinds = append(res.Unwinds, fmt.Sprintf("%s bound=%d", u.Pos, u.Bound))
		if strings.Contains(u.Pos, "zz_vp_") {
			// loops of the harness/specification layer must run to completion: cutting one silently changes the claim
			res.Err = fmt.Errorf("a loop of the harness itself was cut at its bound (%s bound=%d)", u.Pos, u.Bound)
			return
		}
	}
	w.discharge(inst, x, s, res)
	return
}

func (w *World) discharge(inst Instance, x *vexec.Exec, pl *sym.Pool, res *InstResult) {
	c := x.C
	H := x.H
	panicMode := inst.Opt.PanicMode
	if panicMode == "" {
		panicMode = "assert"
	}
	unwindMode := inst.Opt.UnwindMode
	if unwindMode == "" {
		unwindMode = "assume"
	}
	if d := os.Getenv("VP_SMT_LOG"); d != "" {
		dir := filepath.Join(d, strings.ReplaceAll(inst.Name(), " ", "_"))
		os.MkdirAll(dir, 0o755)
		pl.LogDir = dir
		defer func() { pl.LogDir = "" }()
	}
	q0 := pl.Queries
	t0 := pl.Time
	noPanicUpTo := make([]*sym.Term, len(x.Panics)+1)
	noPanicUpTo[0] = c.True
	for i, p := range x.Panics {
		noPanicUpTo[i+1] = c.And(noPanicUpTo[i], c.Not(p.Cond))
	}
	var unwindAssume *sym.Term = c.True
	if unwindMode == "assume" {
		for _, u := range x.Unwinds {
			unwindAssume = c.And(unwindAssume, c.Not(u.Cond))
		}
	}
	base := func(n int) []*sym.Term {
		var as []*sym.Term
		for _, a := range H.Assumes[:n] {
			if a.IsConst() && a.C == 1 {
				continue
			}
			as = append(as, a)
		}
		if !(unwindAssume.IsConst() && unwindAssume.C == 1) {
			as = append(as, unwindAssume)
		}
		return as
	}
	solve := func(as []*sym.Term) (sym.Result, map[string]uint64, string, float64) {
		for _, a := range as {
			if a.IsConst() && a.C == 0 {
				return sym.Unsat, nil, "closed by simplifier", 0
			}
		}
		t := time.Now()
		r, m, who, msg := pl.Solve(&sym.Query{C: c, Asserts: as})
		if who != "" {
			msg = "by " + who + " " + msg
		}
		return r, m, msg, float64(time.Since(t).Microseconds()) / 1000
	}

	// assertions: grouped by the assumptions/panics in force; one query per group decides OR(bad_i);
	// only if that is satisfiable are the members decided one by one
	type grp struct{ na, np int }
	groups := map[grp][]int{}
	var order []grp
	results := make([]ObResult, len(H.Asserts))
	for i, a := range H.Asserts {
		results[i] = ObResult{Label: a.Label, Kind: "assert", Pos: a.Pos}
		if a.Bad.IsConst() && a.Bad.C == 0 {
			results[i].Verdict, results[i].Trivial = "unsat", true
			continue
		}
		k := grp{a.NAssume, a.NPanic}
		if _, ok := groups[k]; !ok {
			order = append(order, k)
		}
		groups[k] = append(groups[k], i)
	}
	for _, k := range order {
		idx := groups[k]
		pre := base(k.na)
		if panicMode != "ignore" {
			np := noPanicUpTo[k.np]
			if !(np.IsConst() && np.C == 1) {
				pre = append(pre, np)
			}
		}
		decideOne := func(i int) {
			a := H.Asserts[i]
			if inst.Opt.Sweep {
				t0 := time.Now()
				var given []*sym.Term
				for _, p := range pre {
					if sym.Size(p, 60) < 60 {
						given = append(given, p)
					}
				}
				sp := sym.NewPool([]string{"z3-new", "z3"}, 8000)
				out, st := c.Sweep([]*sym.Term{a.Bad}, given, sp, sweepSample, 20000)
				sp.Close()
				res.SweepNote = fmt.Sprintf("%s sweep: %d nodes, %d candidate pairs, %d proved equal and merged, %d refuted, %d unknown, %.1fs", res.SweepNote, st.Nodes, st.Candidates, st.Proved, st.Refuted, st.Unknown, time.Since(t0).Seconds())
				if out[0].IsConst() && out[0].C == 0 {
					ob := &results[i]
					ob.Ms, ob.Verdict = float64(time.Since(t0).Milliseconds()), "unsat"
					ob.Detail = fmt.Sprintf("closed by SAT sweeping (%d sub-term equivalences proved by the solver)", st.Proved)
					return
				}
				a.Bad = out[0]
			}
			r, m, msg, ms := solve(append(append([]*sym.Term(nil), pre...), a.Bad))
			ob := &results[i]
			ob.Ms, ob.Verdict, ob.Detail = ms, r.String(), msg
			if r == sym.Sat {
				ob.Model = m
				if len(c.Apps) == 0 && sym.Eval(a.Bad, m, map[*sym.Term]uint64{}) != 1 {
					ob.Detail += " [model does not satisfy the term evaluator]"
				}
			}
		}
		if len(idx) == 1 || inst.Opt.NoGroup || inst.Opt.Sweep {
			for _, i := range idx {
				decideOne(i)
			}
			continue
		}
		var bads []*sym.Term
		for _, i := range idx {
			bads = append(bads, H.Asserts[i].Bad)
		}
		r, _, msg, ms := solve(append(append([]*sym.Term(nil), pre...), c.Or(bads...)))
		if r == sym.Unsat {
			for _, i := range idx {
				results[i].Verdict, results[i].Ms, results[i].Detail = "unsat", ms/float64(len(idx)), "decided jointly with "+fmt.Sprint(len(idx)-1)+" other assertions "+msg
			}
			continue
		}
		for _, i := range idx {
			decideOne(i)
		}
	}
	res.Obs = append(res.Obs, results...)
	// vacuity: every assertion's guard and every cover point must be reachable under the assumptions
	if !inst.Opt.NoVacuity {
		type cv struct {
			label string
			g     *sym.Term
			n     int
		}
		var cvs []cv
		seen := map[string]bool{}
		for _, a := range H.Asserts {
			if len(H.Covers) > 0 {
				break // the harness has explicit cover points after its assertions
			}
			key := fmt.Sprintf("%d/%d", a.G.ID, a.NAssume)
			if seen[key] {
				continue
			}
			seen[key] = true
			cvs = append(cvs, cv{"reach:" + a.Label, a.G, a.NAssume})
		}
		for _, p := range H.Covers {
			key := fmt.Sprintf("%d/%d", p.G.ID, p.NAssume)
			if seen[key] {
				continue
			}
			seen[key] = true
			cvs = append(cvs, cv{"cover:" + p.Label, p.G, p.NAssume})
		}
		for _, v := range cvs {
			ob := ObResult{Label: v.label, Kind: "cover"}
			as := append(base(v.n), v.g)
			var r sym.Result
			r, _, ob.Detail, ob.Ms = solve(as)
			ob.Verdict = r.String()
			res.Obs = append(res.Obs, ob)
		}
	}
	// no panic
	if panicMode == "assert" && len(x.Panics) > 0 {
		// group by the number of assumptions in force when the panic site executed
		groups := map[int][]int{}
		for i, p := range x.Panics {
			groups[p.NAssume] = append(groups[p.NAssume], i)
		}
		var keys []int
		for k := range groups {
			keys = append(keys, k)
		}
		sort.Ints(keys)
		for _, k := range keys {
			var conds []*sym.Term
			for _, i := range groups[k] {
				conds = append(conds, x.Panics[i].Cond)
			}
			any := orAll(c, conds)
			ob := ObResult{Label: fmt.Sprintf("nopanic(%d sites)", len(conds)), Kind: "nopanic"}
			if any.IsConst() && any.C == 0 {
				ob.Verdict, ob.Trivial = "unsat", true
				res.Obs = append(res.Obs, ob)
				continue
			}
			r, m, msg, ms := solve(append(base(k), any))
			ob.Ms, ob.Verdict, ob.Detail = ms, r.String(), msg
			if r == sym.Sat {
				ob.Model = m
				memo := map[*sym.Term]uint64{}
				for _, i := range groups[k] {
					if sym.Eval(x.Panics[i].Cond, m, memo) == 1 {
						ob.Detail = fmt.Sprintf("%s at %s", x.Panics[i].Kind, x.Panics[i].Pos)
						ob.Pos = x.Panics[i].Pos
						break
					}
				}
			}
			res.Obs = append(res.Obs, ob)
		}
	}
	// unwinding assertions
	if unwindMode == "assert" {
		for _, u := range x.Unwinds {
			ob := ObResult{Label: fmt.Sprintf("unwind %s bound=%d", u.Pos, u.Bound), Kind: "unwind"}
			var r sym.Result
			r, _, ob.Detail, ob.Ms = solve(append(base(len(H.Assumes)), u.Cond))
			ob.Verdict = r.String()
			res.Obs = append(res.Obs, ob)
		}
	}
	res.Queries = pl.Queries - q0
	res.SolverMs = float64((pl.Time - t0).Microseconds()) / 1000
}

// ---------------------------------------------------------------- native replay

var replayMu sync.Mutex
var scratchMu sync.Mutex // the scratch module holds one replay test file at a time
var replaySeq int

// Replay runs the harness natively against the real build with the model as its tape.
// It returns "confirmed", "not-reproduced", "assume-failed" or "error", plus the path of the saved replay file.
func (w *World) Replay(inst Instance, ob *ObResult, saveDir string) (string, string) {
	replayMu.Lock()
	replaySeq++
	seq := replaySeq
	replayMu.Unlock()
	tape := map[string]any{"vars": ob.Model, "params": inst.Params, "harness": inst.Pkg + "." + inst.Func, "label": ob.Label, "kind": ob.Kind, "property": inst.Prop}
	data, _ := json.MarshalIndent(tape, "", " ")
	os.MkdirAll(saveDir, 0o755)
	lab := strings.Map(func(r rune) rune {
		if (r >= 'a' && r <= 'z') || (r >= 'A' && r <= 'Z') || (r >= '0' && r <= '9') || r == '-' || r == '_' {
			return r
		}
		return '_'
	}, ob.Label)
	if len(lab) > 40 {
		lab = lab[:40]
	}
	path := filepath.Join(saveDir, fmt.Sprintf("%s_%s_%s_%d.json", inst.Prop, inst.Func, lab, seq))
	if err := os.WriteFile(path, data, 0o644); err != nil {
		return "error", ""
	}
	out, err := w.ReplayTape(inst.Pkg, inst.Func, path)
	_ = err
	switch {
	case strings.Contains(out, "VP-ASSUME-FAIL"):
		return "assume-failed", path
	case strings.Contains(out, "VP-ASSERT-FAIL"):
		if ob.Kind == "assert" && !strings.Contains(out, "VP-ASSERT-FAIL "+ob.Label) {
			// a different assertion fired first; still a real failure of the harness
			return "confirmed", path
		}
		return "confirmed", path
	case strings.Contains(out, "panic:") || strings.Contains(out, "fatal error:"):
		if ob.Kind == "nopanic" {
			return "confirmed", path
		}
		return "confirmed", path
	case strings.Contains(out, "VP-REPLAY-COMPLETED"):
		return "not-reproduced", path
	}
	os.WriteFile(path+".log", []byte(out), 0o644)
	return "error", path
}

// ReplayTape runs harness pkg.fn natively with the given tape file and returns the combined output.
func (w *World) ReplayTape(pkg, fn, tapePath string) (string, error) {
	return w.ReplayTapeTimeout(pkg, fn, tapePath, "120s")
}

// ReplayTapeTimeout is ReplayTape with an explicit go test timeout.
func (w *World) ReplayTapeTimeout(pkg, fn, tapePath, timeout string) (string, error) {
	p := w.TPkgs[ModPath+"/"+pkg]
	if p == nil {
		return "", fmt.Errorf("package %s not loaded", pkg)
	}
	replayMu.Lock()
	replaySeq++
	seq := replaySeq
	replayMu.Unlock()
	src := fmt.Sprintf("package %s\n\nimport (\n\t\"testing\"\n\t\"%s/vp\"\n)\n\nfunc TestVpReplay(t *testing.T) {\n\t%s()\n\tvp.Done()\n}\n", p.Name, ModPath, fn)
	if _, isVirt := w.Virtual[pkg]; isVirt {
		scratchMu.Lock()
		defer scratchMu.Unlock()
		dir, err := w.ScratchModule()
		if err != nil {
			return "", err
		}
		tf := filepath.Join(dir, pkg, fmt.Sprintf("zz_replay_%d_test.go", seq))
		if err := os.WriteFile(tf, []byte(src), 0o644); err != nil {
			return "", err
		}
		defer os.Remove(tf)
		cmd := exec.Command("go", "test", "-vet=off", "-count=1", "-run", "^TestVpReplay$", "-v", "-timeout", "120s", "./"+pkg)
		cmd.Dir = dir
		abs, _ := filepath.Abs(tapePath)
		cmd.Env = append(GoEnv(), "VP_TAPE="+abs)
		out, err := cmd.CombinedOutput()
		return string(out), err
	}
	real := filepath.Join(w.TmpDir, fmt.Sprintf("replay_%d_test.go", seq))
	if err := os.WriteFile(real, []byte(src), 0o644); err != nil {
		return "", err
	}
	dir := filepath.Join(w.RepoDir, pkg)
	ovf, err := w.overlayJSON(map[string]string{filepath.Join(dir, "zz_vp_replay_test.go"): real}, fmt.Sprintf("overlay_replay_%d.json", seq))
	if err != nil {
		return "", err
	}
	args := []string{"test", "-vet=off", "-count=1", "-overlay", ovf, "-run", "^TestVpReplay$", "-v", "-timeout", timeout}
	if w.Tags != "" {
		args = append(args, "-tags="+w.Tags)
	}
	args = append(args, ModPath+"/"+pkg)
	cmd := exec.Command("go", args...)
	cmd.Dir = w.RepoDir
	abs, _ := filepath.Abs(tapePath)
	cmd.Env = append(GoEnv(), "VP_TAPE="+abs)
	out, err := cmd.CombinedOutput()
	return string(out), err
}

// sweepSample draws random values for simulation vector k; board cells get valid piece codes at varying densities.
func sweepSample(v *sym.Term, r *rand.Rand, k int) uint64 {
	if strings.HasPrefix(v.Name, "cell[") {
		dens := []int{10, 25, 40, 60, 80}[k%5] // percent of occupied squares
		if r.Intn(100) >= dens {
			return 0
		}
		p := uint64(1 + r.Intn(5))
		if r.Intn(2) == 0 {
			p |= 8
		}
		return p
	}
	return r.Uint64()
}
