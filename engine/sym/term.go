// Package sym is a hash-consed bit-vector term DAG with a simplifier tuned for
// bitboard code: known-bits tracking, bit-slicing through concat, ite lifting
// over small constant domains and AC normal forms for and/or/xor/add.
//
// Booleans are 1-bit vectors. All widths are 1..64.
package sym

import (
	"fmt"
	"math/bits"
	"sort"
)

type Op uint8

const (
	OConst Op = iota
	OVar
	ONot
	OAnd
	OOr
	OXor
	ONeg
	OAdd
	OMul
	OUDiv
	OURem
	OSDiv
	OSRem
	OShl
	OLShr
	OAShr
	OConcat
	OExtract
	OSExt
	OIte
	OEq
	OUlt
	OSlt
	OApp
)

var opNames = [...]string{"const", "var", "bvnot", "bvand", "bvor", "bvxor", "bvneg", "bvadd", "bvmul",
	"bvudiv", "bvurem", "bvsdiv", "bvsrem", "bvshl", "bvlshr", "bvashr", "concat", "extract", "sext", "ite", "=", "bvult", "bvslt", "app"}

type Term struct {
	ID   int32
	Op   Op
	W    uint8
	Args []*Term
	C    uint64 // constant value; extract: hi<<8|lo
	K0   uint64 // bits known to be zero
	K1   uint64 // bits known to be one
	Name string // var / app name
}

func Mask(w uint8) uint64 {
	if w >= 64 {
		return ^uint64(0)
	}
	return (uint64(1) << w) - 1
}

func (t *Term) IsConst() bool { return t.Op == OConst }
func (t *Term) Hi() uint8     { return uint8(t.C >> 8) }
func (t *Term) Lo() uint8     { return uint8(t.C) }

// UMax is the largest unsigned value t may take according to known bits.
func (t *Term) UMax() uint64 { return ^t.K0 & Mask(t.W) }

// UMin is the smallest unsigned value t may take according to known bits.
func (t *Term) UMin() uint64 { return t.K1 }

func (t *Term) String() string {
	switch t.Op {
	case OConst:
		return fmt.Sprintf("%d:%d", t.C, t.W)
	case OVar:
		return t.Name
	}
	return fmt.Sprintf("t%d", t.ID)
}

type Ctx struct {
	tab    map[string]*Term
	nextID int32
	Vars   []*Term
	varIdx map[string]*Term
	Apps   map[string][]uint8 // uninterpreted function signatures: result width followed by arg widths
	keybuf []byte
	NTerms int
	True   *Term
	False  *Term
	exMemo map[uint64]*Term
	MaxTerms int // 0 = unlimited; exceeding it panics with TermBudget (callers fail closed)
}

// TermBudget is the panic value raised when a context grows beyond MaxTerms.
type TermBudget struct{ N int }

func NewCtx() *Ctx {
	c := &Ctx{tab: map[string]*Term{}, varIdx: map[string]*Term{}, Apps: map[string][]uint8{}, exMemo: map[uint64]*Term{}}
	c.True = c.Const(1, 1)
	c.False = c.Const(1, 0)
	return c
}

func (c *Ctx) mk(op Op, w uint8, cv uint64, name string, args ...*Term) *Term {
	b := c.keybuf[:0]
	b = append(b, byte(op), w)
	for i := 0; i < 8; i++ {
		b = append(b, byte(cv>>(8*i)))
	}
	for _, a := range args {
		b = append(b, byte(a.ID), byte(a.ID>>8), byte(a.ID>>16), byte(a.ID>>24))
	}
	b = append(b, name...)
	c.keybuf = b
	if t, ok := c.tab[string(b)]; ok {
		return t
	}
	if c.MaxTerms > 0 && c.NTerms > c.MaxTerms {
		panic(TermBudget{c.NTerms})
	}
	t := &Term{ID: c.nextID, Op: op, W: w, C: cv, Name: name}
	if len(args) > 0 {
		t.Args = append([]*Term(nil), args...)
	}
	c.nextID++
	c.NTerms++
	c.known(t)
	// fully known => constant
	if op != OConst && (t.K0|t.K1) == Mask(w) {
		k := c.Const(w, t.K1)
		c.tab[string(b)] = k
		return k
	}
	c.tab[string(b)] = t
	return t
}

func (c *Ctx) Const(w uint8, v uint64) *Term {
	if w == 0 || w > 64 {
		panic(fmt.Sprintf("bad width %d", w))
	}
	return c.mk(OConst, w, v&Mask(w), "")
}

func (c *Ctx) Var(w uint8, name string) *Term {
	if t, ok := c.varIdx[name]; ok {
		if t.W != w {
			panic("var width mismatch " + name)
		}
		return t
	}
	t := c.mk(OVar, w, 0, name)
	c.varIdx[name] = t
	c.Vars = append(c.Vars, t)
	return t
}

func (c *Ctx) Bool(b bool) *Term {
	if b {
		return c.True
	}
	return c.False
}

// known computes known-bits for a freshly made node.
func (c *Ctx) known(t *Term) {
	m := Mask(t.W)
	a := t.Args
	switch t.Op {
	case OConst:
		t.K1 = t.C
		t.K0 = ^t.C & m
	case ONot:
		t.K0, t.K1 = a[0].K1, a[0].K0
	case OAnd:
		k0, k1 := uint64(0), m
		for _, x := range a {
			k0 |= x.K0
			k1 &= x.K1
		}
		t.K0, t.K1 = k0, k1
	case OOr:
		k0, k1 := m, uint64(0)
		for _, x := range a {
			k0 &= x.K0
			k1 |= x.K1
		}
		t.K0, t.K1 = k0, k1
	case OXor:
		kn := m
		v := uint64(0)
		for _, x := range a {
			kn &= x.K0 | x.K1
			v ^= x.K1
		}
		t.K1 = v & kn
		t.K0 = ^v & kn
	case OConcat:
		var k0, k1 uint64
		for _, x := range a {
			k0 = k0<<x.W | x.K0
			k1 = k1<<x.W | x.K1
		}
		t.K0, t.K1 = k0&m, k1&m
	case OExtract:
		lo := t.Lo()
		t.K0 = (a[0].K0 >> lo) & m
		t.K1 = (a[0].K1 >> lo) & m
	case OSExt:
		aw := a[0].W
		am := Mask(aw)
		t.K0, t.K1 = a[0].K0&am, a[0].K1&am
		sign := uint64(1) << (aw - 1)
		if a[0].K0&sign != 0 {
			t.K0 |= m &^ am
		} else if a[0].K1&sign != 0 {
			t.K1 |= m &^ am
		}
	case OIte:
		t.K0 = a[1].K0 & a[2].K0
		t.K1 = a[1].K1 & a[2].K1
	case OAdd:
		// trailing zeros, and leading zeros when no overflow is possible
		tz := 64
		sum := uint64(0)
		ovf := false
		for _, x := range a {
			z := bits.TrailingZeros64(^x.K0)
			if z < tz {
				tz = z
			}
			s, carry := bits.Add64(sum, x.UMax(), 0)
			if carry != 0 || s > m {
				ovf = true
			}
			sum = s
		}
		if tz > int(t.W) {
			tz = int(t.W)
		}
		t.K0 = Mask(uint8(tz)) & m
		if tz == 0 {
			t.K0 = 0
		}
		if !ovf {
			lz := bits.LeadingZeros64(sum)
			if lz > 0 {
				t.K0 |= ^(^uint64(0) >> lz) & m
			}
		}
	case OMul:
		tz := bits.TrailingZeros64(^a[0].K0) + bits.TrailingZeros64(^a[1].K0)
		if tz > int(t.W) {
			tz = int(t.W)
		}
		if tz > 0 {
			t.K0 = Mask(uint8(tz)) & m
		}
		hi, lo := bits.Mul64(a[0].UMax(), a[1].UMax())
		if hi == 0 && lo <= m {
			lz := bits.LeadingZeros64(lo)
			if lz > 0 {
				t.K0 |= ^(^uint64(0) >> lz) & m
			}
		}
	case OUDiv:
		// result <= umax(a) unless the divisor may be zero (SMT: all ones)
		lz := bits.LeadingZeros64(a[0].UMax())
		if lz > 0 && a[1].K1 != 0 {
			t.K0 = ^(^uint64(0) >> lz) & m
		}
	case OURem:
		mx := a[0].UMax()
		if b := a[1].UMax(); a[1].K1 != 0 && b-1 < mx {
			mx = b - 1
		}
		lz := bits.LeadingZeros64(mx)
		if lz > 0 {
			t.K0 = ^(^uint64(0) >> lz) & m
		}
	case OLShr:
		lz := bits.LeadingZeros64(a[0].UMax())
		if lz > 0 {
			t.K0 = ^(^uint64(0) >> lz) & m
		}
	case OShl:
		tz := bits.TrailingZeros64(^a[0].K0)
		if tz > int(t.W) {
			tz = int(t.W)
		}
		if tz > 0 {
			t.K0 = Mask(uint8(tz)) & m
		}
	}
}

// ---------------------------------------------------------------- helpers

func (c *Ctx) ZExt(a *Term, w uint8) *Term {
	if a.W == w {
		return a
	}
	if a.W > w {
		return c.Extract(w-1, 0, a)
	}
	return c.Concat(c.Const(w-a.W, 0), a)
}

func (c *Ctx) SExt(a *Term, w uint8) *Term {
	if a.W == w {
		return a
	}
	if a.W > w {
		return c.Extract(w-1, 0, a)
	}
	if a.IsConst() {
		v := a.C
		if v>>(a.W-1)&1 == 1 {
			v |= ^Mask(a.W)
		}
		return c.Const(w, v)
	}
	sign := uint64(1) << (a.W - 1)
	if a.K0&sign != 0 {
		return c.ZExt(a, w)
	}
	if a.K1&sign != 0 {
		return c.Concat(c.Const(w-a.W, ^uint64(0)), a)
	}
	if a.Op == OIte && isConstTree(a, 6) {
		return c.mapLeaves(a, func(l *Term) *Term { return c.SExt(l, w) })
	}
	return c.mk(OSExt, w, 0, "", a)
}

// isConstTree reports whether t is a constant or an ite tree (depth <= d) whose leaves are all constants.
func isConstTree(t *Term, d int) bool {
	if t.Op == OConst {
		return true
	}
	if t.Op == OIte && d > 0 {
		return isConstTree(t.Args[1], d-1) && isConstTree(t.Args[2], d-1)
	}
	return false
}

func (c *Ctx) mapLeaves(t *Term, f func(*Term) *Term) *Term {
	if t.Op == OIte {
		return c.Ite(t.Args[0], c.mapLeaves(t.Args[1], f), c.mapLeaves(t.Args[2], f))
	}
	return f(t)
}

// lift2 applies a binary constructor through an ite-of-constants operand when the other operand is constant.
func (c *Ctx) lift2(a, b *Term, f func(x, y *Term) *Term) (*Term, bool) {
	if a.Op == OIte && b.IsConst() && isConstTree(a, 8) {
		return c.mapLeaves(a, func(l *Term) *Term { return f(l, b) }), true
	}
	if b.Op == OIte && a.IsConst() && isConstTree(b, 8) {
		return c.mapLeaves(b, func(l *Term) *Term { return f(a, l) }), true
	}
	return nil, false
}

// ---------------------------------------------------------------- not / bit ops

func (c *Ctx) Not(a *Term) *Term {
	switch a.Op {
	case OConst:
		return c.Const(a.W, ^a.C)
	case ONot:
		return a.Args[0]
	case OConcat:
		parts := make([]*Term, len(a.Args))
		for i, p := range a.Args {
			parts[i] = c.Not(p)
		}
		return c.Concat(parts...)
	case OIte:
		if isConstTree(a, 8) {
			return c.mapLeaves(a, c.Not)
		}
	}
	return c.mk(ONot, a.W, 0, "", a)
}

// cuts returns the set of bit positions (as a mask of "cut below bit i") where concat args or constants change.
func concatCuts(t *Term, cuts *uint64) {
	if t.Op == OConcat {
		pos := uint8(0)
		for i := len(t.Args) - 1; i >= 0; i-- {
			pos += t.Args[i].W
			if pos < 64 {
				*cuts |= 1 << pos
			}
		}
	}
}

func constCuts(v uint64, w uint8, cuts *uint64) {
	for i := uint8(1); i < w; i++ {
		if (v>>i)&1 != (v>>(i-1))&1 {
			*cuts |= 1 << i
		}
	}
}

func (c *Ctx) And(args ...*Term) *Term { return c.bitop(OAnd, args) }
func (c *Ctx) Or(args ...*Term) *Term  { return c.bitop(OOr, args) }
func (c *Ctx) Xor(args ...*Term) *Term { return c.bitop(OXor, args) }

func (c *Ctx) bitop(op Op, in []*Term) *Term {
	if len(in) == 0 {
		panic("bitop: no args")
	}
	w := in[0].W
	m := Mask(w)
	// flatten + constant fold
	var args []*Term
	var cv uint64
	switch op {
	case OAnd:
		cv = m
	}
	hasConcat := false
	var flat func(t *Term)
	flat = func(t *Term) {
		if t.W != w {
			panic(fmt.Sprintf("bitop width mismatch %d vs %d (%v)", t.W, w, opNames[op]))
		}
		if t.Op == op {
			for _, x := range t.Args {
				flat(x)
			}
			return
		}
		if t.Op == OConst {
			switch op {
			case OAnd:
				cv &= t.C
			case OOr:
				cv |= t.C
			case OXor:
				cv ^= t.C
			}
			return
		}
		if t.Op == OConcat {
			hasConcat = true
		}
		args = append(args, t)
	}
	for _, t := range in {
		flat(t)
	}
	if op == OAnd && hasConcat && len(args) >= 2 {
		// x & (x-1) over a vector assembled from single bits: clear the lowest set bit, bit-wise: bit i survives iff
		// it is set and some lower bit is set (no borrow chain for the solver to unravel)
		for i, y := range args {
			if y.Op != OAdd || len(y.Args) != 2 || !y.Args[1].IsConst() || y.Args[1].C != m || y.Args[0].Op != OConcat {
				continue
			}
			x := y.Args[0]
			j := -1
			for k, t := range args {
				if t == x {
					j = k
				}
			}
			if j < 0 {
				continue
			}
			parts := make([]*Term, w)
			lower := c.False
			for b := uint8(0); b < w; b++ {
				xb := c.Bit(x, b)
				parts[w-1-b] = c.And(xb, lower)
				lower = c.Or(lower, xb)
			}
			var rest []*Term
			for k, t := range args {
				if k != i && k != j {
					rest = append(rest, t)
				}
			}
			rest = append(rest, c.Concat(parts...), c.Const(w, cv))
			return c.bitop(OAnd, rest)
		}
	}
	switch op {
	case OAnd:
		if cv == 0 {
			return c.Const(w, 0)
		}
	case OOr:
		if cv == m {
			return c.Const(w, m)
		}
	}
	if len(args) == 0 {
		return c.Const(w, cv)
	}
	ident := uint64(0)
	if op == OAnd {
		ident = m
	}
	// bit-slice when a concat or a mask-like constant is involved (and/or with few runs; xor only with all-ones)
	sliceConst := false
	if cv != ident {
		var cc uint64
		constCuts(cv, w, &cc)
		runs := bits.OnesCount64(cc)
		sliceConst = (op != OXor && runs <= 16) || runs == 0
	}
	if w > 1 && (hasConcat || sliceConst) {
		var cuts uint64
		for _, a := range args {
			concatCuts(a, &cuts)
		}
		if cv != ident {
			constCuts(cv, w, &cuts)
		}
		if cuts == 0 && cv != ident {
			// uniform constant: only xor with all-ones gets here
			return c.Not(c.bitop(op, args))
		}
		if cuts != 0 {
			var parts []*Term
			hi := w
			for hi > 0 {
				// find the next cut below hi
				lo := uint8(0)
				for p := hi - 1; p > 0; p-- {
					if cuts>>p&1 == 1 {
						lo = p
						break
					}
				}
				seg := make([]*Term, 0, len(args)+1)
				for _, a := range args {
					seg = append(seg, c.Extract(hi-1, lo, a))
				}
				if cv != ident {
					seg = append(seg, c.Const(hi-lo, cv>>lo))
				}
				parts = append(parts, c.bitop(op, seg))
				hi = lo
			}
			return c.Concat(parts...)
		}
	}
	if cv != ident {
		if op == OXor && cv == m { // xor with all ones
			return c.Not(c.bitop(op, args))
		}
		args = append(args, c.Const(w, cv))
	}
	// sort, dedupe
	sort.Slice(args, func(i, j int) bool { return args[i].ID < args[j].ID })
	out := args[:0]
	for i := 0; i < len(args); i++ {
		if i+1 < len(args) && args[i] == args[i+1] {
			if op == OXor {
				i++
				continue
			}
			continue // idempotent: keep the later copy
		}
		out = append(out, args[i])
	}
	args = out
	if len(args) == 0 {
		return c.Const(w, 0) // only reachable for xor
	}
	// complements
	if len(args) >= 2 {
		ids := map[int32]bool{}
		for _, a := range args {
			ids[a.ID] = true
		}
		for _, a := range args {
			compl := a.Op == ONot && ids[a.Args[0].ID]
			if !compl && a.Op == ONot && a.Args[0].Op == op && op != OXor {
				// not(op(subset of our operands)) next to those operands
				compl = true
				for _, t := range a.Args[0].Args {
					if !ids[t.ID] {
						compl = false
						break
					}
				}
			}
			if compl && op == OXor && !(a.Op == ONot && ids[a.Args[0].ID]) {
				compl = false
			}
			if compl {
				switch op {
				case OAnd:
					return c.Const(w, 0)
				case OOr:
					return c.Const(w, m)
				case OXor:
					// x ^ ~x = ones
					rest := []*Term{c.Const(w, m)}
					for _, b := range args {
						if b != a && b != a.Args[0] {
							rest = append(rest, b)
						}
					}
					return c.bitop(op, rest)
				}
			}
		}
	}
	if len(args) == 1 {
		return args[0]
	}
	// width 1: or(and(S,l), and(S,!l)) = and(S) and absorption or(x, and(x,y)) = x (dually for and/or swapped);
	// these keep path guards small when branches re-join
	if w == 1 && (op == OOr || op == OAnd) && len(args) <= 24 {
		inner := OAnd
		if op == OAnd {
			inner = OOr
		}
		// unit resolution: or(x, and(!x, y)) = or(x, y);  and(x, or(!x, y)) = and(x, y)
		{
			unit := map[int32]bool{}
			for _, t := range args {
				if t.Op != inner {
					unit[t.ID] = true
				}
			}
			for i, t := range args {
				if t.Op != inner {
					continue
				}
				var keep []*Term
				for _, l := range t.Args {
					neg := (l.Op == ONot && unit[l.Args[0].ID])
					if !neg {
						// !l is a unit?
						for _, u := range args {
							if u.Op == ONot && u.Args[0] == l {
								neg = true
								break
							}
						}
					}
					if !neg {
						keep = append(keep, l)
					}
				}
				if len(keep) != len(t.Args) {
					rest := append([]*Term(nil), args[:i]...)
					rest = append(rest, args[i+1:]...)
					if len(keep) == 0 {
						// inner op over nothing: and() = true, or() = false
						if inner == OAnd {
							rest = append(rest, c.True)
						} else {
							rest = append(rest, c.False)
						}
					} else {
						rest = append(rest, c.bitop(inner, keep))
					}
					return c.bitop(op, rest)
				}
			}
		}
		lits := func(t *Term) []*Term {
			if t.Op == inner {
				return t.Args
			}
			return []*Term{t}
		}
		for i := 0; i < len(args); i++ {
			for j := i + 1; j < len(args); j++ {
				a, b := lits(args[i]), lits(args[j])
				// absorption: one literal set contains the other
				if sub, sup := a, b; len(a) <= len(b) || len(b) <= len(a) {
					if len(sub) > len(sup) {
						sub, sup = sup, sub
					}
					in := map[int32]bool{}
					for _, t := range sup {
						in[t.ID] = true
					}
					all := true
					for _, t := range sub {
						if !in[t.ID] {
							all = false
							break
						}
					}
					if all {
						keep := args[i]
						if len(lits(args[j])) < len(lits(args[i])) {
							keep = args[j]
						}
						rest := []*Term{keep}
						for k, t := range args {
							if k != i && k != j {
								rest = append(rest, t)
							}
						}
						return c.bitop(op, rest)
					}
				}
				if len(a) != len(b) {
					continue
				}
				// same literals except one complementary pair
				inb := map[int32]bool{}
				for _, t := range b {
					inb[t.ID] = true
				}
				var diffA *Term
				nd := 0
				for _, t := range a {
					if !inb[t.ID] {
						diffA = t
						nd++
					}
				}
				if nd != 1 {
					continue
				}
				ina := map[int32]bool{}
				for _, t := range a {
					ina[t.ID] = true
				}
				var diffB *Term
				for _, t := range b {
					if !ina[t.ID] {
						diffB = t
					}
				}
				if diffB == nil || !((diffA.Op == ONot && diffA.Args[0] == diffB) || (diffB.Op == ONot && diffB.Args[0] == diffA)) {
					continue
				}
				var common []*Term
				for _, t := range a {
					if t != diffA {
						common = append(common, t)
					}
				}
				var merged *Term
				if len(common) == 0 {
					// or(l, !l) / and(l, !l) were handled above
					continue
				}
				merged = c.bitop(inner, common)
				rest := []*Term{merged}
				for k, t := range args {
					if k != i && k != j {
						rest = append(rest, t)
					}
				}
				return c.bitop(op, rest)
			}
		}
	}
	// boolean absorption for width 1: and(a, or(a, b)) is rare; skip.
	return c.mk(op, w, 0, "", args...)
}

// ---------------------------------------------------------------- concat / extract

func (c *Ctx) Concat(in ...*Term) *Term {
	var parts []*Term
	var add func(t *Term)
	add = func(t *Term) {
		if t.Op == OConcat {
			for _, x := range t.Args {
				add(x)
			}
			return
		}
		if n := len(parts); n > 0 {
			p := parts[n-1]
			if p.Op == OConst && t.Op == OConst && p.W+t.W <= 64 {
				parts[n-1] = c.Const(p.W+t.W, p.C<<t.W|t.C)
				return
			}
			if p.Op == OExtract && t.Op == OExtract && p.Args[0] == t.Args[0] && p.Lo() == t.Hi()+1 {
				parts[n-1] = c.Extract(p.Hi(), t.Lo(), p.Args[0])
				return
			}
		}
		parts = append(parts, t)
	}
	for _, t := range in {
		add(t)
	}
	if len(parts) == 1 {
		return parts[0]
	}
	w := 0
	for _, p := range parts {
		w += int(p.W)
	}
	if w > 64 {
		panic("concat wider than 64")
	}
	return c.mk(OConcat, uint8(w), 0, "", parts...)
}

func (c *Ctx) Extract(hi, lo uint8, a *Term) *Term {
	if hi < lo || hi >= a.W {
		panic(fmt.Sprintf("bad extract [%d:%d] of width %d", hi, lo, a.W))
	}
	w := hi - lo + 1
	if w == a.W {
		return a
	}
	if a.Op == OConst {
		return c.Const(w, a.C>>lo)
	}
	key := uint64(a.ID)<<16 | uint64(hi)<<8 | uint64(lo)
	if r, ok := c.exMemo[key]; ok {
		return r
	}
	r := c.extract(hi, lo, w, a)
	c.exMemo[key] = r
	return r
}

func (c *Ctx) extract(hi, lo, w uint8, a *Term) *Term {
	switch a.Op {
	case OConcat:
		var parts []*Term
		pos := a.W
		for _, p := range a.Args {
			phi := pos - 1   // highest bit of p within a
			plo := pos - p.W // lowest bit of p within a
			pos -= p.W
			if plo > hi || phi < lo {
				continue
			}
			h := min(hi, phi) - plo
			l := max(lo, plo) - plo
			parts = append(parts, c.Extract(h, l, p))
		}
		return c.Concat(parts...)
	case OExtract:
		return c.Extract(hi+a.Lo(), lo+a.Lo(), a.Args[0])
	case ONot:
		return c.Not(c.Extract(hi, lo, a.Args[0]))
	case OAnd, OOr, OXor:
		xs := make([]*Term, len(a.Args))
		for i, x := range a.Args {
			xs[i] = c.Extract(hi, lo, x)
		}
		return c.bitop(a.Op, xs)
	case OIte:
		return c.Ite(a.Args[0], c.Extract(hi, lo, a.Args[1]), c.Extract(hi, lo, a.Args[2]))
	case OSExt:
		aw := a.Args[0].W
		if hi < aw {
			return c.Extract(hi, lo, a.Args[0])
		}
		if lo == 0 {
			return c.SExt(a.Args[0], w)
		}
	case OAdd:
		if lo == 0 {
			xs := make([]*Term, len(a.Args))
			for i, x := range a.Args {
				xs[i] = c.Extract(hi, 0, x)
			}
			return c.Add(xs...)
		}
	case ONeg:
		if lo == 0 {
			return c.Neg(c.Extract(hi, 0, a.Args[0]))
		}
	case OMul:
		if lo == 0 {
			return c.Mul(c.Extract(hi, 0, a.Args[0]), c.Extract(hi, 0, a.Args[1]))
		}
	}
	return c.mk(OExtract, w, uint64(hi)<<8|uint64(lo), "", a)
}

// Bit is bit i of a as a 1-bit term.
func (c *Ctx) Bit(a *Term, i uint8) *Term { return c.Extract(i, i, a) }

// ---------------------------------------------------------------- ite / comparisons

func (c *Ctx) Ite(cond, a, b *Term) *Term {
	if cond.W != 1 {
		panic("ite cond width")
	}
	if a.W != b.W {
		panic(fmt.Sprintf("ite arm width mismatch %d %d", a.W, b.W))
	}
	if cond.IsConst() {
		if cond.C == 1 {
			return a
		}
		return b
	}
	if a == b {
		return a
	}
	if cond.Op == ONot {
		return c.Ite(cond.Args[0], b, a)
	}
	if a.W == 1 {
		switch {
		case a.IsConst() && b.IsConst():
			if a.C == 1 {
				return cond
			}
			return c.Not(cond)
		case a.IsConst() && a.C == 1:
			return c.Or(cond, b)
		case a.IsConst() && a.C == 0:
			return c.And(c.Not(cond), b)
		case b.IsConst() && b.C == 0:
			return c.And(cond, a)
		case b.IsConst() && b.C == 1:
			return c.Or(c.Not(cond), a)
		}
	}
	if a.Op == OIte && a.Args[0] == cond {
		a = a.Args[1]
	}
	if b.Op == OIte && b.Args[0] == cond {
		b = b.Args[2]
	}
	if a == b {
		return a
	}
	// ite(c, x, ite(d, x, y)) => ite(c|d, x, y) ; ite(c, ite(d, x, y), y) => ite(c&d, x, y)
	if b.Op == OIte && b.Args[1] == a {
		return c.Ite(c.Or(cond, b.Args[0]), a, b.Args[2])
	}
	if a.Op == OIte && a.Args[2] == b {
		return c.Ite(c.And(cond, a.Args[0]), a.Args[1], b)
	}
	// factor common operands of an AC operator out of both arms:
	//   ite(c, op(S,X), op(S,Y)) = op(S, ite(c, op(X), op(Y)))      (op in xor, add, or, and)
	// this turns "h = cond ? h^k : h" chains into flat xors/sums that cancel syntactically
	{
		for _, op := range [...]Op{OXor, OAdd, OOr, OAnd} {
			if a.Op != op && b.Op != op {
				continue
			}
			if a.W == 1 && op == OAdd {
				continue
			}
			as, bs := []*Term{a}, []*Term{b}
			if a.Op == op {
				as = a.Args
			}
			if b.Op == op {
				bs = b.Args
			}
			inB := map[int32]int{}
			for _, t := range bs {
				inB[t.ID]++
			}
			var common, ra []*Term
			for _, t := range as {
				if inB[t.ID] > 0 {
					inB[t.ID]--
					common = append(common, t)
				} else {
					ra = append(ra, t)
				}
			}
			if len(common) == 0 {
				continue
			}
			var rb []*Term
			for _, t := range bs {
				if n := inB[t.ID]; n > 0 {
					inB[t.ID]--
					rb = append(rb, t)
				}
			}
			ident := c.Const(a.W, 0)
			if op == OAnd {
				ident = c.Const(a.W, Mask(a.W))
			}
			mkop := func(ts []*Term) *Term {
				if len(ts) == 0 {
					return ident
				}
				switch op {
				case OXor:
					return c.Xor(ts...)
				case OAdd:
					return c.Add(ts...)
				case OOr:
					return c.Or(ts...)
				}
				return c.And(ts...)
			}
			inner := c.Ite(cond, mkop(ra), mkop(rb))
			return mkop(append(common, inner))
		}
	}
	// bit-slice when both arms are concats (or concat vs const)
	if a.W > 1 && ((a.Op == OConcat && (b.Op == OConcat || b.Op == OConst)) || (b.Op == OConcat && a.Op == OConst)) {
		var cuts uint64
		concatCuts(a, &cuts)
		concatCuts(b, &cuts)
		if a.Op == OConst {
			constCuts(a.C, a.W, &cuts)
		}
		if b.Op == OConst {
			constCuts(b.C, b.W, &cuts)
		}
		if cuts != 0 {
			var parts []*Term
			hi := a.W
			for hi > 0 {
				lo := uint8(0)
				for p := hi - 1; p > 0; p-- {
					if cuts>>p&1 == 1 {
						lo = p
						break
					}
				}
				parts = append(parts, c.Ite(cond, c.Extract(hi-1, lo, a), c.Extract(hi-1, lo, b)))
				hi = lo
			}
			return c.Concat(parts...)
		}
	}
	return c.mk(OIte, a.W, 0, "", cond, a, b)
}

func (c *Ctx) Eq(a, b *Term) *Term {
	if a.W != b.W {
		panic(fmt.Sprintf("eq width mismatch %d %d", a.W, b.W))
	}
	if a == b {
		return c.True
	}
	if a.IsConst() && b.IsConst() {
		return c.Bool(a.C == b.C)
	}
	if a.K1&b.K0 != 0 || a.K0&b.K1 != 0 {
		return c.False
	}
	if a.IsConst() {
		a, b = b, a
	}
	if a.W == 1 {
		if b.IsConst() {
			if b.C == 1 {
				return a
			}
			return c.Not(a)
		}
		return c.Not(c.Xor(a, b))
	}
	// equalities between merges that share an arm: no duplication, and the shared (often huge) arm drops out
	if a.Op == OIte && b.Op == OIte && a.Args[0] == b.Args[0] {
		if a.Args[1] == b.Args[1] {
			return c.Or(a.Args[0], c.Eq(a.Args[2], b.Args[2]))
		}
		if a.Args[2] == b.Args[2] {
			return c.Or(c.Not(a.Args[0]), c.Eq(a.Args[1], b.Args[1]))
		}
	}
	for i := 0; i < 2; i++ {
		p, q := a, b
		if i == 1 {
			p, q = b, a
		}
		if p.Op == OIte && !q.IsConst() {
			if p.Args[1] == q {
				return c.Or(p.Args[0], c.Eq(p.Args[2], q))
			}
			if p.Args[2] == q {
				return c.Or(c.Not(p.Args[0]), c.Eq(p.Args[1], q))
			}
		}
	}
	// x & (x-1) == 0: "at most one bit set", as a canonical population count (so that the same test on a permuted
	// bit-vector, e.g. a mirrored bitboard, is the identical term instead of a borrow chain in another order)
	if b.IsConst() && b.C == 0 && a.Op == OAnd && len(a.Args) == 2 && a.W > 8 {
		for i := 0; i < 2; i++ {
			x, y := a.Args[i], a.Args[1-i]
			if y.Op == OAdd && len(y.Args) == 2 && y.Args[0] == x && y.Args[1].IsConst() && y.Args[1].C == Mask(a.W) {
				return c.Ult(c.Popcount(x, 8), c.Const(8, 2))
			}
		}
	}
	if r, ok := c.lift2(a, b, c.Eq); ok {
		return r
	}
	// xor-sums: cancel common operands, eq(xor(S,X), xor(S,Y)) = eq(xor(X), xor(Y))
	if a.Op == OXor || b.Op == OXor {
		as, bs := []*Term{a}, []*Term{b}
		if a.Op == OXor {
			as = a.Args
		}
		if b.Op == OXor {
			bs = b.Args
		}
		inB := map[int32]bool{}
		for _, t := range bs {
			inB[t.ID] = true
		}
		nc := 0
		for _, t := range as {
			if inB[t.ID] {
				nc++
			}
		}
		if nc > 0 {
			var ra, rb []*Term
			inA := map[int32]bool{}
			for _, t := range as {
				inA[t.ID] = true
				if !inB[t.ID] {
					ra = append(ra, t)
				}
			}
			for _, t := range bs {
				if !inA[t.ID] {
					rb = append(rb, t)
				}
			}
			mk := func(ts []*Term) *Term {
				if len(ts) == 0 {
					return c.Const(a.W, 0)
				}
				return c.Xor(ts...)
			}
			return c.Eq(mk(ra), mk(rb))
		}
	}
	if b.IsConst() {
		switch a.Op {
		case OConcat:
			var cs []*Term
			pos := a.W
			for _, p := range a.Args {
				pos -= p.W
				cs = append(cs, c.Eq(p, c.Const(p.W, b.C>>pos)))
			}
			return c.And(cs...)
		case OAdd:
			// x + k == b  =>  x == b - k
			for i, x := range a.Args {
				if x.IsConst() {
					rest := append(append([]*Term(nil), a.Args[:i]...), a.Args[i+1:]...)
					return c.Eq(c.Add(rest...), c.Const(a.W, b.C-x.C))
				}
			}
		case ONot:
			return c.Eq(a.Args[0], c.Const(a.W, ^b.C))
		case OIte:
			// eq(ite(c, k, y), b) with constant k
			if a.Args[1].IsConst() || a.Args[2].IsConst() {
				return c.Ite(a.Args[0], c.Eq(a.Args[1], b), c.Eq(a.Args[2], b))
			}
		case OSExt:
			x := a.Args[0]
			if c.SExt(c.Const(x.W, b.C), a.W).C == b.C {
				return c.Eq(x, c.Const(x.W, b.C))
			}
			return c.False
		}
	}
	if a.Op == OConcat && b.Op == OConcat {
		var cuts uint64
		concatCuts(a, &cuts)
		concatCuts(b, &cuts)
		var cs []*Term
		hi := a.W
		for hi > 0 {
			lo := uint8(0)
			for p := hi - 1; p > 0; p-- {
				if cuts>>p&1 == 1 {
					lo = p
					break
				}
			}
			cs = append(cs, c.Eq(c.Extract(hi-1, lo, a), c.Extract(hi-1, lo, b)))
			hi = lo
		}
		return c.And(cs...)
	}
	if a.ID > b.ID {
		a, b = b, a
	}
	return c.mk(OEq, 1, 0, "", a, b)
}

func (c *Ctx) Ne(a, b *Term) *Term { return c.Not(c.Eq(a, b)) }

func (c *Ctx) Ult(a, b *Term) *Term {
	if a.W != b.W {
		panic("ult width mismatch")
	}
	if a == b {
		return c.False
	}
	if a.IsConst() && b.IsConst() {
		return c.Bool(a.C < b.C)
	}
	if a.UMax() < b.UMin() {
		return c.True
	}
	if a.UMin() >= b.UMax() {
		return c.False
	}
	if r, ok := c.lift2(a, b, c.Ult); ok {
		return r
	}
	if b.IsConst() && b.C == 1 {
		return c.Eq(a, c.Const(a.W, 0))
	}
	if a.IsConst() && a.C == 0 {
		return c.Ne(b, c.Const(a.W, 0))
	}
	// drop common known-zero leading bits
	lz := min(bits.LeadingZeros64(a.UMax()), bits.LeadingZeros64(b.UMax())) - (64 - int(a.W))
	if lz > 0 && int(a.W)-lz >= 1 {
		nw := a.W - uint8(lz)
		return c.Ult(c.Extract(nw-1, 0, a), c.Extract(nw-1, 0, b))
	}
	return c.mk(OUlt, 1, 0, "", a, b)
}

func (c *Ctx) Ule(a, b *Term) *Term { return c.Not(c.Ult(b, a)) }

func signed(v uint64, w uint8) int64 {
	if w < 64 && v>>(w-1)&1 == 1 {
		v |= ^Mask(w)
	}
	return int64(v)
}

func (c *Ctx) Slt(a, b *Term) *Term {
	if a.W != b.W {
		panic("slt width mismatch")
	}
	if a == b {
		return c.False
	}
	if a.IsConst() && b.IsConst() {
		return c.Bool(signed(a.C, a.W) < signed(b.C, b.W))
	}
	sign := uint64(1) << (a.W - 1)
	aPos, aNeg := a.K0&sign != 0, a.K1&sign != 0
	bPos, bNeg := b.K0&sign != 0, b.K1&sign != 0
	if (aPos && bPos) || (aNeg && bNeg) {
		return c.Ult(a, b)
	}
	if aNeg && bPos {
		return c.True
	}
	if aPos && bNeg {
		return c.False
	}
	if r, ok := c.lift2(a, b, c.Slt); ok {
		return r
	}
	if a.Op == OSExt && b.Op == OSExt && a.Args[0].W == b.Args[0].W {
		return c.Slt(a.Args[0], b.Args[0])
	}
	if a.Op == OSExt && b.IsConst() {
		x := a.Args[0]
		bv := signed(b.C, b.W)
		lo, hi := -(int64(1) << (x.W - 1)), (int64(1)<<(x.W-1))-1
		if bv > hi {
			return c.True
		}
		if bv <= lo {
			return c.False
		}
		return c.Slt(x, c.Const(x.W, uint64(bv)))
	}
	if b.Op == OSExt && a.IsConst() {
		x := b.Args[0]
		av := signed(a.C, a.W)
		lo, hi := -(int64(1) << (x.W - 1)), (int64(1)<<(x.W-1))-1
		if av >= hi {
			return c.False
		}
		if av < lo {
			return c.True
		}
		return c.Slt(c.Const(x.W, uint64(av)), x)
	}
	return c.mk(OSlt, 1, 0, "", a, b)
}

func (c *Ctx) Sle(a, b *Term) *Term { return c.Not(c.Slt(b, a)) }

// ---------------------------------------------------------------- arithmetic

func (c *Ctx) Neg(a *Term) *Term {
	switch a.Op {
	case OConst:
		return c.Const(a.W, -a.C)
	case ONeg:
		return a.Args[0]
	case OIte:
		if isConstTree(a, 8) {
			return c.mapLeaves(a, c.Neg)
		}
	case OAdd:
		// -(x + y) = -x + -y, so that sums cancel term by term
		ns := make([]*Term, len(a.Args))
		for i, t := range a.Args {
			ns[i] = c.Neg(t)
		}
		return c.Add(ns...)
	}
	// known trailing zeros followed by a known one: -x = concat(~hi, 1, 0..0)
	tz := bits.TrailingZeros64(^a.K0)
	if tz < int(a.W) && a.K1>>tz&1 == 1 {
		var parts []*Term
		if tz+1 < int(a.W) {
			parts = append(parts, c.Not(c.Extract(a.W-1, uint8(tz+1), a)))
		}
		parts = append(parts, c.Const(uint8(tz+1), uint64(1)<<tz))
		return c.Concat(parts...)
	}
	return c.mk(ONeg, a.W, 0, "", a)
}

func (c *Ctx) Sub(a, b *Term) *Term { return c.Add(a, c.Neg(b)) }

func (c *Ctx) Add(in ...*Term) *Term {
	w := in[0].W
	m := Mask(w)
	var args []*Term
	cv := uint64(0)
	var flat func(t *Term)
	flat = func(t *Term) {
		if t.W != w {
			panic(fmt.Sprintf("add width mismatch %d %d", t.W, w))
		}
		switch t.Op {
		case OAdd:
			for _, x := range t.Args {
				flat(x)
			}
		case OConst:
			cv += t.C
		default:
			args = append(args, t)
		}
	}
	for _, t := range in {
		flat(t)
	}
	cv &= m
	// cancel x + (-x)
	if len(args) >= 2 {
		used := make([]bool, len(args))
		changed := false
		for i, a := range args {
			if used[i] || a.Op != ONeg {
				continue
			}
			for j, b := range args {
				if !used[j] && j != i && b == a.Args[0] {
					used[i], used[j] = true, true
					changed = true
					break
				}
			}
		}
		if changed {
			var out []*Term
			for i, a := range args {
				if !used[i] {
					out = append(out, a)
				}
			}
			args = out
		}
	}
	if len(args) == 0 {
		return c.Const(w, cv)
	}
	if len(args) == 1 && cv == 0 {
		return args[0]
	}
	if len(args) == 1 && cv != 0 {
		// subtracting a constant whose bits are all known to be set: no borrows, just clear them
		a := args[0]
		k := (-cv) & m
		if k&a.K1 == k {
			return c.And(a, c.Const(w, ^k))
		}
	}
	if len(args) == 1 {
		a := args[0]
		if a.Op == OIte && isConstTree(a, 8) {
			k := c.Const(w, cv)
			return c.mapLeaves(a, func(l *Term) *Term { return c.Add(l, k) })
		}
		// decrement of a value with known trailing zeros then a one
		if cv == m {
			tz := bits.TrailingZeros64(^a.K0)
			if tz < int(w) && a.K1>>tz&1 == 1 {
				var parts []*Term
				if tz+1 < int(w) {
					parts = append(parts, c.Extract(w-1, uint8(tz+1), a))
				}
				// low tz bits become ones, bit tz becomes zero
				parts = append(parts, c.Const(uint8(tz+1), Mask(uint8(tz))))
				return c.Concat(parts...)
			}
		}
	}
	all := args
	if cv != 0 {
		all = append(append([]*Term(nil), args...), c.Const(w, cv))
	}
	// no possible carries => or
	disjoint := true
	var seen uint64
	for _, a := range all {
		p := ^a.K0 & m
		if seen&p != 0 {
			disjoint = false
			break
		}
		seen |= p
	}
	if disjoint {
		return c.Or(all...)
	}
	sort.Slice(args, func(i, j int) bool { return args[i].ID < args[j].ID })
	if cv != 0 {
		args = append(args, c.Const(w, cv))
	}
	return c.mk(OAdd, w, 0, "", args...)
}

func (c *Ctx) Mul(a, b *Term) *Term {
	if a.W != b.W {
		panic("mul width mismatch")
	}
	if a.IsConst() && b.IsConst() {
		return c.Const(a.W, a.C*b.C)
	}
	if a.IsConst() {
		a, b = b, a
	}
	if b.IsConst() {
		switch {
		case b.C == 0:
			return b
		case b.C == 1:
			return a
		case b.C&(b.C-1) == 0:
			return c.ShlC(a, uint8(bits.TrailingZeros64(b.C)))
		case b.C == Mask(a.W):
			return c.Neg(a)
		}
	}
	if r, ok := c.lift2(a, b, c.Mul); ok {
		return r
	}
	// a in {0,1}: a*b = ite(a0, b, 0)
	if a.UMax() == 1 {
		return c.Ite(c.Bit(a, 0), b, c.Const(a.W, 0))
	}
	if b.UMax() == 1 {
		return c.Ite(c.Bit(b, 0), a, c.Const(a.W, 0))
	}
	if a.ID > b.ID {
		a, b = b, a
	}
	return c.mk(OMul, a.W, 0, "", a, b)
}

func (c *Ctx) divop(op Op, a, b *Term) *Term {
	if a.W != b.W {
		panic("div width mismatch")
	}
	w := a.W
	if a.IsConst() && b.IsConst() && b.C != 0 {
		switch op {
		case OUDiv:
			return c.Const(w, a.C/b.C)
		case OURem:
			return c.Const(w, a.C%b.C)
		case OSDiv:
			x, y := signed(a.C, w), signed(b.C, w)
			if y == -1 {
				return c.Const(w, uint64(-x))
			}
			return c.Const(w, uint64(x/y))
		case OSRem:
			x, y := signed(a.C, w), signed(b.C, w)
			if y == -1 {
				return c.Const(w, 0)
			}
			return c.Const(w, uint64(x%y))
		}
	}
	if b.IsConst() && b.C != 0 {
		sign := uint64(1) << (w - 1)
		if (op == OSDiv || op == OSRem) && a.K0&sign != 0 && b.C&sign == 0 {
			if op == OSDiv {
				op = OUDiv
			} else {
				op = OURem
			}
		}
		if b.C&(b.C-1) == 0 {
			k := uint8(bits.TrailingZeros64(b.C))
			switch op {
			case OUDiv:
				return c.LShrC(a, k)
			case OURem:
				if k == 0 {
					return c.Const(w, 0)
				}
				return c.ZExt(c.Extract(k-1, 0, a), w)
			}
		}
		if b.C == 1 && op == OSDiv {
			return a
		}
		if a.Op == OIte && isConstTree(a, 8) {
			return c.mapLeaves(a, func(l *Term) *Term { return c.divop(op, l, b) })
		}
	}
	return c.mk(op, w, 0, "", a, b)
}

func (c *Ctx) UDiv(a, b *Term) *Term { return c.divop(OUDiv, a, b) }
func (c *Ctx) URem(a, b *Term) *Term { return c.divop(OURem, a, b) }
func (c *Ctx) SDiv(a, b *Term) *Term { return c.divop(OSDiv, a, b) }
func (c *Ctx) SRem(a, b *Term) *Term { return c.divop(OSRem, a, b) }

// ShlC shifts left by a constant.
func (c *Ctx) ShlC(a *Term, n uint8) *Term {
	if n == 0 {
		return a
	}
	if n >= a.W {
		return c.Const(a.W, 0)
	}
	return c.Concat(c.Extract(a.W-1-n, 0, a), c.Const(n, 0))
}

func (c *Ctx) LShrC(a *Term, n uint8) *Term {
	if n == 0 {
		return a
	}
	if n >= a.W {
		return c.Const(a.W, 0)
	}
	return c.Concat(c.Const(n, 0), c.Extract(a.W-1, n, a))
}

func (c *Ctx) AShrC(a *Term, n uint8) *Term {
	if n == 0 {
		return a
	}
	if n >= a.W {
		n = a.W - 1
		return c.SExt(c.Extract(a.W-1, a.W-1, a), a.W)
	}
	return c.SExt(c.Extract(a.W-1, n, a), a.W)
}

// shift with a symbolic amount of the same width (SMT semantics: amounts >= width give 0 / sign fill).
func (c *Ctx) shift(op Op, a, n *Term) *Term {
	if a.W != n.W {
		panic("shift width mismatch")
	}
	if n.IsConst() {
		k := n.C
		if k > uint64(a.W) {
			k = uint64(a.W)
		}
		switch op {
		case OShl:
			return c.ShlC(a, uint8(k))
		case OLShr:
			return c.LShrC(a, uint8(k))
		default:
			return c.AShrC(a, uint8(k))
		}
	}
	if a.IsConst() && a.C == 0 {
		return a
	}
	// expand over the unknown bits of the amount when there are few of them
	unk := ^(n.K0 | n.K1) & Mask(n.W)
	if bits.OnesCount64(unk) <= 3 {
		b := uint8(bits.TrailingZeros64(unk))
		bit := c.Bit(n, b)
		n1 := c.forceBit(n, b, 1)
		n0 := c.forceBit(n, b, 0)
		return c.Ite(bit, c.shift(op, a, n1), c.shift(op, a, n0))
	}
	return c.mk(op, a.W, 0, "", a, n)
}

// forceBit returns n with bit b replaced by the constant v.
func (c *Ctx) forceBit(n *Term, b uint8, v uint64) *Term {
	var parts []*Term
	if b+1 < n.W {
		parts = append(parts, c.Extract(n.W-1, b+1, n))
	}
	parts = append(parts, c.Const(1, v))
	if b > 0 {
		parts = append(parts, c.Extract(b-1, 0, n))
	}
	return c.Concat(parts...)
}

func (c *Ctx) Shl(a, n *Term) *Term  { return c.shift(OShl, a, n) }
func (c *Ctx) LShr(a, n *Term) *Term { return c.shift(OLShr, a, n) }
func (c *Ctx) AShr(a, n *Term) *Term { return c.shift(OAShr, a, n) }

// App is an uninterpreted function application.
func (c *Ctx) App(name string, w uint8, args ...*Term) *Term {
	sig := []uint8{w}
	for _, a := range args {
		sig = append(sig, a.W)
	}
	if old, ok := c.Apps[name]; ok {
		if len(old) != len(sig) {
			panic("app signature mismatch " + name)
		}
	} else {
		c.Apps[name] = sig
	}
	return c.mk(OApp, w, 0, name, args...)
}

// ---------------------------------------------------------------- derived

// Popcount of a as a term of width w.
func (c *Ctx) Popcount(a *Term, w uint8) *Term {
	var xs []*Term
	for i := uint8(0); i < a.W; i++ {
		b := c.Bit(a, i)
		if b.IsConst() && b.C == 0 {
			continue
		}
		xs = append(xs, c.ZExt(b, w))
	}
	if len(xs) == 0 {
		return c.Const(w, 0)
	}
	// canonical operand order: the count of a permuted bit-vector (a mirrored bitboard) is then the identical term,
	// instead of an adder tree in another order that a SAT solver cannot match up
	sort.Slice(xs, func(i, j int) bool { return xs[i].ID < xs[j].ID })
	// balanced sum
	for len(xs) > 1 {
		var nx []*Term
		for i := 0; i+1 < len(xs); i += 2 {
			nx = append(nx, c.Add(xs[i], xs[i+1]))
		}
		if len(xs)%2 == 1 {
			nx = append(nx, xs[len(xs)-1])
		}
		xs = nx
	}
	return xs[0]
}

// Ctz is the count of trailing zeros (a.W when a == 0) as a term of width w.
func (c *Ctx) Ctz(a *Term, w uint8) *Term {
	res := c.Const(w, uint64(a.W))
	top := int(a.W) - 1
	if a.K1 != 0 {
		top = bits.TrailingZeros64(a.K1) // bits above the lowest known one cannot matter
	}
	for i := top; i >= 0; i-- {
		res = c.Ite(c.Bit(a, uint8(i)), c.Const(w, uint64(i)), res)
	}
	return res
}

// Clz is the count of leading zeros (a.W when a == 0) as a term of width w.
func (c *Ctx) Clz(a *Term, w uint8) *Term {
	res := c.Const(w, uint64(a.W))
	for i := 0; i < int(a.W); i++ {
		res = c.Ite(c.Bit(a, uint8(i)), c.Const(w, uint64(int(a.W)-1-i)), res)
	}
	return res
}

// Mux selects elems[idx] with a balanced ite tree over the bits of idx. Out-of-range indices select an arbitrary element.
func (c *Ctx) Mux(idx *Term, n int, elem func(i int) *Term) *Term {
	if idx.IsConst() {
		if int(idx.C) < n {
			return elem(int(idx.C))
		}
		return elem(0)
	}
	var rec func(bit int, base int) *Term
	rec = func(bit int, base int) *Term {
		if base >= n {
			return nil
		}
		if bit < 0 {
			return elem(base)
		}
		lo := rec(bit-1, base)
		hi := rec(bit-1, base|1<<bit)
		if hi == nil {
			return lo
		}
		if lo == nil {
			return hi
		}
		return c.Ite(c.Bit(idx, uint8(bit)), hi, lo)
	}
	nb := bits.Len(uint(n - 1))
	if nb > int(idx.W) {
		nb = int(idx.W)
	}
	// bits of idx above nb are ignored (out of range anyway)
	return rec(nb-1, 0)
}

// OpHist counts the terms created so far by operator (debugging aid).
func (c *Ctx) OpHist() map[string]int {
	h := map[string]int{}
	seen := map[*Term]bool{}
	for _, t := range c.tab {
		if !seen[t] {
			seen[t] = true
			h[opNames[t.Op]+fmt.Sprintf("/%d", t.W)]++
		}
	}
	return h
}
