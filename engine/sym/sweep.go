package sym

import (
	"math/rand"
	"sort"
)

// Rebuild reconstructs t over new arguments through the simplifying constructors.
func (c *Ctx) Rebuild(t *Term, a []*Term) *Term {
	switch t.Op {
	case OConst, OVar:
		return t
	case ONot:
		return c.Not(a[0])
	case OAnd:
		return c.And(a...)
	case OOr:
		return c.Or(a...)
	case OXor:
		return c.Xor(a...)
	case ONeg:
		return c.Neg(a[0])
	case OAdd:
		return c.Add(a...)
	case OMul:
		return c.Mul(a[0], a[1])
	case OUDiv:
		return c.UDiv(a[0], a[1])
	case OURem:
		return c.URem(a[0], a[1])
	case OSDiv:
		return c.SDiv(a[0], a[1])
	case OSRem:
		return c.SRem(a[0], a[1])
	case OShl:
		return c.Shl(a[0], a[1])
	case OLShr:
		return c.LShr(a[0], a[1])
	case OAShr:
		return c.AShr(a[0], a[1])
	case OConcat:
		return c.Concat(a...)
	case OExtract:
		return c.Extract(t.Hi(), t.Lo(), a[0])
	case OSExt:
		return c.SExt(a[0], t.W)
	case OIte:
		return c.Ite(a[0], a[1], a[2])
	case OEq:
		return c.Eq(a[0], a[1])
	case OUlt:
		return c.Ult(a[0], a[1])
	case OSlt:
		return c.Slt(a[0], a[1])
	case OApp:
		return c.App(t.Name, t.W, a...)
	}
	panic("rebuild: unknown op")
}

// SweepStats reports what an equivalence sweep did.
type SweepStats struct {
	Nodes, Candidates, Proved, Refuted, Unknown int
}

// Sweep performs SAT sweeping on the cone of roots: terms with equal signatures under random simulation are proved
// equivalent by the solver (under the side conditions `given`, which must be assumptions of the enclosing query)
// bottom-up, and merged, so that structurally different but equivalent sub-circuits of a miter collapse before the
// final query. Sound: a merge happens only after an unsat answer for (given && a != b). Returns the rewritten roots.
// sample draws a random value for a variable (so that simple domain constraints can be respected).
func (c *Ctx) Sweep(roots []*Term, given []*Term, pool *Pool, sample func(v *Term, r *rand.Rand, k int) uint64, maxQueries int) ([]*Term, SweepStats) {
	var st SweepStats
	// topological order of the cone
	var order []*Term
	seen := map[*Term]bool{}
	var visit func(t *Term)
	visit = func(t *Term) {
		if seen[t] {
			return
		}
		seen[t] = true
		for _, a := range t.Args {
			visit(a)
		}
		order = append(order, t)
	}
	for _, r := range roots {
		visit(r)
	}
	st.Nodes = len(order)
	// random simulation; counterexamples of refuted candidates are added as further vectors (refinement)
	const K = 160
	rng := rand.New(rand.NewSource(12345))
	var vars []*Term
	for _, t := range order {
		if t.Op == OVar {
			vars = append(vars, t)
		}
	}
	sig := map[*Term][]uint64{}
	for _, t := range order {
		sig[t] = make([]uint64, 0, K+16)
	}
	simulate := func(env map[string]uint64) {
		memo := map[*Term]uint64{}
		for _, t := range order {
			sig[t] = append(sig[t], Eval(t, env, memo))
		}
	}
	for k := 0; k < K; k++ {
		env := map[string]uint64{}
		krng := rand.New(rand.NewSource(int64(k)*7919 + 1))
		_ = rng
		for _, v := range vars {
			if sample != nil {
				env[v.Name] = sample(v, krng, k) & Mask(v.W)
			} else {
				env[v.Name] = krng.Uint64() & Mask(v.W)
			}
		}
		simulate(env)
	}
	key := func(t *Term) string {
		b := make([]byte, 0, K*8+1)
		b = append(b, t.W)
		for _, v := range sig[t][:K] {
			for i := 0; i < 8; i++ {
				b = append(b, byte(v>>(8*i)))
			}
		}
		return string(b)
	}
	sameSig := func(a, b *Term) bool {
		x, y := sig[a], sig[b]
		for i := K; i < len(x); i++ {
			if x[i] != y[i] {
				return false
			}
		}
		return true
	}
	// bottom-up merging
	subst := map[*Term]*Term{}
	type repT struct{ orig, term *Term }
	classes := map[string][]repT{} // initial signature -> representatives
	queries := 0
	for _, t := range order {
		nt := t
		if len(t.Args) > 0 {
			na := make([]*Term, len(t.Args))
			changed := false
			for i, a := range t.Args {
				na[i] = subst[a]
				if na[i] != a {
					changed = true
				}
			}
			if changed {
				nt = c.Rebuild(t, na)
			}
		}
		subst[t] = nt
		if nt.IsConst() || nt.Op == OVar {
			continue
		}
		k := key(t)
		merged := false
		for _, rep := range classes[k] {
			if rep.term == nt {
				merged = true
				break
			}
			if !sameSig(rep.orig, t) || queries >= maxQueries {
				continue
			}
			st.Candidates++
			queries++
			var ne *Term
			if nt.W == 1 {
				ne = c.Xor(nt, rep.term)
			} else {
				ne = c.Not(c.Eq(nt, rep.term))
			}
			if ne.IsConst() && ne.C == 0 {
				subst[t] = rep.term
				merged = true
				st.Proved++
				break
			}
			q := &Query{C: c, Asserts: append(append([]*Term(nil), given...), ne)}
			r, model, _, _ := pool.Solve(q)
			switch r {
			case Unsat:
				subst[t] = rep.term
				merged = true
				st.Proved++
			case Sat:
				st.Refuted++
				if model != nil && len(sig[t]) < K+4000 {
					simulate(model) // the counterexample separates this pair and usually many others
				}
			default:
				st.Unknown++
			}
			if merged {
				break
			}
		}
		if !merged {
			classes[k] = append(classes[k], repT{t, nt})
		}
	}
	out := make([]*Term, len(roots))
	for i, r := range roots {
		out[i] = subst[r]
	}
	_ = sort.Ints
	return out, st
}

// Size counts the nodes of t's cone up to limit.
func Size(t *Term, limit int) int {
	seen := map[*Term]bool{}
	var walk func(t *Term)
	walk = func(t *Term) {
		if seen[t] || len(seen) >= limit {
			return
		}
		seen[t] = true
		for _, a := range t.Args {
			walk(a)
		}
	}
	walk(t)
	return len(seen)
}
