package sym

import (
	"fmt"
	"math/rand"
	"testing"
)

// raw AST, evaluated naively, to cross-check the simplifying constructors.
type raw struct {
	op     string
	w      uint8
	args   []*raw
	c      uint64
	name   string
	hi, lo uint8
}

var widths = []uint8{1, 3, 4, 6, 8, 16, 32, 64}

func genVar(r *rand.Rand, w uint8) *raw {
	return &raw{op: "var", w: w, name: string(rune('a'+r.Intn(3))) + string(rune('0'+w%10)) + string(rune('0'+w/10))}
}

func gen(r *rand.Rand, w uint8, d int) *raw {
	if d == 0 || r.Intn(8) == 0 {
		if r.Intn(3) == 0 {
			v := r.Uint64()
			switch r.Intn(4) {
			case 0:
				v = 0
			case 1:
				v = 1
			case 2:
				v = ^uint64(0)
			}
			return &raw{op: "const", w: w, c: v & Mask(w)}
		}
		return genVar(r, w)
	}
	bin := func(op string) *raw { return &raw{op: op, w: w, args: []*raw{gen(r, w, d-1), gen(r, w, d-1)}} }
	for {
		switch r.Intn(24) {
		case 0:
			return &raw{op: "not", w: w, args: []*raw{gen(r, w, d-1)}}
		case 1:
			return bin("and")
		case 2:
			return bin("or")
		case 3:
			return bin("xor")
		case 4:
			return &raw{op: "neg", w: w, args: []*raw{gen(r, w, d-1)}}
		case 5:
			return bin("add")
		case 6:
			return bin("sub")
		case 7:
			return bin("mul")
		case 8:
			return bin([]string{"udiv", "urem", "sdiv", "srem"}[r.Intn(4)])
		case 9:
			return bin([]string{"shl", "lshr", "ashr"}[r.Intn(3)])
		case 10: // shift by const
			return &raw{op: []string{"shl", "lshr", "ashr"}[r.Intn(3)], w: w, args: []*raw{gen(r, w, d-1), {op: "const", w: w, c: uint64(r.Intn(int(w) + 2))}}}
		case 11: // concat
			if w < 2 {
				continue
			}
			k := uint8(1 + r.Intn(int(w)-1))
			return &raw{op: "concat", w: w, args: []*raw{gen(r, w-k, d-1), gen(r, k, d-1)}}
		case 12, 13: // extract from a wider thing
			ww := widths[r.Intn(len(widths))]
			if ww < w {
				continue
			}
			lo := uint8(r.Intn(int(ww-w) + 1))
			return &raw{op: "extract", w: w, hi: lo + w - 1, lo: lo, args: []*raw{gen(r, ww, d-1)}}
		case 14: // sext / zext
			if w < 2 {
				continue
			}
			k := uint8(1 + r.Intn(int(w)-1))
			return &raw{op: []string{"sext", "zext"}[r.Intn(2)], w: w, args: []*raw{gen(r, k, d-1)}}
		case 15, 16:
			return &raw{op: "ite", w: w, args: []*raw{gen(r, 1, d-1), gen(r, w, d-1), gen(r, w, d-1)}}
		case 17, 18, 19:
			if w != 1 {
				continue
			}
			ww := widths[r.Intn(len(widths))]
			return &raw{op: []string{"eq", "ult", "slt"}[r.Intn(3)], w: 1, args: []*raw{gen(r, ww, d-1), gen(r, ww, d-1)}}
		case 20:
			ww := widths[r.Intn(len(widths))]
			if w < 7 {
				continue
			}
			return &raw{op: []string{"popcnt", "ctz", "clz"}[r.Intn(3)], w: w, args: []*raw{gen(r, ww, d-1)}}
		case 21: // ite of constants (small domain)
			return &raw{op: "ite", w: w, args: []*raw{gen(r, 1, d-1), {op: "const", w: w, c: r.Uint64() & Mask(w)}, {op: "const", w: w, c: uint64(r.Intn(4)) & Mask(w)}}}
		case 22: // masks
			return &raw{op: "and", w: w, args: []*raw{gen(r, w, d-1), {op: "const", w: w, c: (uint64(0x0101010101010101) * uint64(r.Intn(256))) & Mask(w)}}}
		case 23:
			return &raw{op: "mux", w: w, args: []*raw{gen(r, 3, d-1), gen(r, w, d-1), gen(r, w, d-1), gen(r, w, d-1), gen(r, w, d-1), gen(r, w, d-1)}}
		}
	}
}

func (x *raw) eval(env map[string]uint64) uint64 {
	m := Mask(x.w)
	a := func(i int) uint64 { return x.args[i].eval(env) }
	var r uint64
	switch x.op {
	case "const":
		r = x.c
	case "var":
		r = env[x.name]
	case "not":
		r = ^a(0)
	case "and":
		r = a(0) & a(1)
	case "or":
		r = a(0) | a(1)
	case "xor":
		r = a(0) ^ a(1)
	case "neg":
		r = -a(0)
	case "add":
		r = a(0) + a(1)
	case "sub":
		r = a(0) - a(1)
	case "mul":
		r = a(0) * a(1)
	case "udiv":
		if a(1) == 0 {
			r = m
		} else {
			r = a(0) / a(1)
		}
	case "urem":
		if a(1) == 0 {
			r = a(0)
		} else {
			r = a(0) % a(1)
		}
	case "sdiv":
		p, q := signed(a(0), x.w), signed(a(1), x.w)
		switch {
		case q == 0:
			if p < 0 {
				r = 1
			} else {
				r = m
			}
		case q == -1:
			r = uint64(-p)
		default:
			r = uint64(p / q)
		}
	case "srem":
		p, q := signed(a(0), x.w), signed(a(1), x.w)
		switch {
		case q == 0:
			r = uint64(p)
		case q == -1:
			r = 0
		default:
			r = uint64(p % q)
		}
	case "shl":
		if a(1) >= uint64(x.w) {
			r = 0
		} else {
			r = a(0) << a(1)
		}
	case "lshr":
		if a(1) >= uint64(x.w) {
			r = 0
		} else {
			r = a(0) >> a(1)
		}
	case "ashr":
		n := a(1)
		if n >= uint64(x.w) {
			n = uint64(x.w) - 1
		}
		r = uint64(signed(a(0), x.w) >> n)
	case "concat":
		r = a(0)<<x.args[1].w | a(1)
	case "extract":
		r = a(0) >> x.lo
	case "sext":
		r = uint64(signed(a(0), x.args[0].w))
	case "zext":
		r = a(0)
	case "ite":
		if a(0) == 1 {
			r = a(1)
		} else {
			r = a(2)
		}
	case "eq":
		if a(0) == a(1) {
			r = 1
		}
	case "ult":
		if a(0) < a(1) {
			r = 1
		}
	case "slt":
		if signed(a(0), x.args[0].w) < signed(a(1), x.args[1].w) {
			r = 1
		}
	case "popcnt":
		v := a(0)
		for v != 0 {
			r++
			v &= v - 1
		}
	case "ctz":
		v := a(0)
		r = uint64(x.args[0].w)
		for i := uint8(0); i < x.args[0].w; i++ {
			if v>>i&1 == 1 {
				r = uint64(i)
				break
			}
		}
	case "clz":
		v := a(0)
		r = uint64(x.args[0].w)
		for i := int(x.args[0].w) - 1; i >= 0; i-- {
			if v>>uint(i)&1 == 1 {
				r = uint64(int(x.args[0].w) - 1 - i)
				break
			}
		}
	case "mux":
		i := a(0)
		if i < 5 {
			r = a(1 + int(i))
		} else {
			return 0xdead // out of range: unconstrained
		}
	}
	return r & m
}

func (x *raw) build(c *Ctx) *Term {
	a := func(i int) *Term { return x.args[i].build(c) }
	switch x.op {
	case "const":
		return c.Const(x.w, x.c)
	case "var":
		return c.Var(x.w, x.name)
	case "not":
		return c.Not(a(0))
	case "and":
		return c.And(a(0), a(1))
	case "or":
		return c.Or(a(0), a(1))
	case "xor":
		return c.Xor(a(0), a(1))
	case "neg":
		return c.Neg(a(0))
	case "add":
		return c.Add(a(0), a(1))
	case "sub":
		return c.Sub(a(0), a(1))
	case "mul":
		return c.Mul(a(0), a(1))
	case "udiv":
		return c.UDiv(a(0), a(1))
	case "urem":
		return c.URem(a(0), a(1))
	case "sdiv":
		return c.SDiv(a(0), a(1))
	case "srem":
		return c.SRem(a(0), a(1))
	case "shl":
		return c.Shl(a(0), a(1))
	case "lshr":
		return c.LShr(a(0), a(1))
	case "ashr":
		return c.AShr(a(0), a(1))
	case "concat":
		return c.Concat(a(0), a(1))
	case "extract":
		return c.Extract(x.hi, x.lo, a(0))
	case "sext":
		return c.SExt(a(0), x.w)
	case "zext":
		return c.ZExt(a(0), x.w)
	case "ite":
		return c.Ite(a(0), a(1), a(2))
	case "eq":
		return c.Eq(a(0), a(1))
	case "ult":
		return c.Ult(a(0), a(1))
	case "slt":
		return c.Slt(a(0), a(1))
	case "popcnt":
		return c.Popcount(a(0), x.w)
	case "ctz":
		return c.Ctz(a(0), x.w)
	case "clz":
		return c.Clz(a(0), x.w)
	case "mux":
		els := []*Term{a(1), a(2), a(3), a(4), a(5)}
		return c.Mux(a(0), 5, func(i int) *Term { return els[i] })
	}
	panic(x.op)
}

func hasMuxOOR(x *raw, env map[string]uint64) bool {
	if x.op == "mux" && x.args[0].eval(env) >= 5 {
		return true
	}
	for _, a := range x.args {
		if hasMuxOOR(a, env) {
			return true
		}
	}
	return false
}

func divByZero(x *raw, env map[string]uint64) bool { return false }

func TestSimplifierAgainstNaive(t *testing.T) {
	r := rand.New(rand.NewSource(1))
	n := 30000
	if testing.Short() {
		n = 3000
	}
	for it := 0; it < n; it++ {
		w := widths[r.Intn(len(widths))]
		x := gen(r, w, 1+r.Intn(5))
		c := NewCtx()
		tm := x.build(c)
		if tm.W != w {
			t.Fatalf("width: got %d want %d", tm.W, w)
		}
		for k := 0; k < 8; k++ {
			env := map[string]uint64{}
			for _, v := range c.Vars {
				val := r.Uint64()
				switch r.Intn(5) {
				case 0:
					val = 0
				case 1:
					val = ^uint64(0)
				case 2:
					val = uint64(r.Intn(4))
				}
				env[v.Name] = val & Mask(v.W)
			}
			if hasMuxOOR(x, env) {
				continue
			}
			want := x.eval(env)
			got := Eval(tm, env, map[*Term]uint64{})
			if got != want {
				t.Fatalf("iter %d: mismatch got %x want %x (w=%d) env=%v\nexpr=%v", it, got, want, w, env, shrink(x, env))
			}
			// known bits must be consistent
			if got&tm.K0 != 0 || ^got&tm.K1 != 0 {
				t.Fatalf("iter %d: known bits wrong: val %x k0 %x k1 %x", it, got, tm.K0, tm.K1)
			}
		}
	}
}

func (x *raw) String() string {
	switch x.op {
	case "const":
		return fmt.Sprintf("%#x:%d", x.c, x.w)
	case "var":
		return x.name
	case "extract":
		return fmt.Sprintf("ext[%d:%d](%v)", x.hi, x.lo, x.args[0])
	}
	s := x.op + fmt.Sprintf(":%d(", x.w)
	for i, a := range x.args {
		if i > 0 {
			s += ", "
		}
		s += a.String()
	}
	return s + ")"
}

func shrink(x *raw, env map[string]uint64) *raw {
	for _, a := range x.args {
		if hasMuxOOR(a, env) {
			continue
		}
		c := NewCtx()
		tm := a.build(c)
		if Eval(tm, env, map[*Term]uint64{}) != a.eval(env) {
			return shrink(a, env)
		}
	}
	return x
}
