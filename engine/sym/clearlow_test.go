package sym

import (
	"fmt"
	"math/bits"
	"math/rand"
	"testing"
)

// TestClearLowestAndPopcount: the bit-wise forms of x&(x-1) and of the population count over vectors assembled from
// single bits agree with machine arithmetic.
func TestClearLowestAndPopcount(t *testing.T) {
	r := rand.New(rand.NewSource(5))
	for _, w := range []uint8{9, 16, 64} {
		c := NewCtx()
		parts := make([]*Term, w)
		for i := range parts {
			v := c.Var(1, fmt.Sprintf("b%d", i))
			if i%5 == 3 {
				v = c.And(v, c.Var(1, fmt.Sprintf("g%d", i)))
			}
			parts[int(w)-1-i] = v
		}
		x := c.Concat(parts...)
		cl := c.And(x, c.Add(x, c.Const(w, Mask(w))))
		pow2 := c.And(c.Eq(cl, c.Const(w, 0)), c.Not(c.Eq(x, c.Const(w, 0))))
		pc := c.Popcount(x, 8)
		for n := 0; n < 3000; n++ {
			env := map[string]uint64{}
			var xv uint64
			for i := 0; i < int(w); i++ {
				b := uint64(r.Intn(2))
				if r.Intn(3) > 0 && n%2 == 0 {
					b = 0 // sparse vectors
				}
				env[fmt.Sprintf("b%d", i)] = b
				g := uint64(r.Intn(2))
				env[fmt.Sprintf("g%d", i)] = g
				if i%5 == 3 {
					b &= g
				}
				xv |= b << uint(i)
			}
			if got := Eval(cl, env, map[*Term]uint64{}); got != xv&(xv-1)&Mask(w) {
				t.Fatalf("w=%d x=%x clear-lowest got %x want %x", w, xv, got, xv&(xv-1))
			}
			want := uint64(0)
			if xv != 0 && xv&(xv-1) == 0 {
				want = 1
			}
			if got := Eval(pow2, env, map[*Term]uint64{}); got != want {
				t.Fatalf("w=%d x=%x pow2 got %d want %d", w, xv, got, want)
			}
			if got := Eval(pc, env, map[*Term]uint64{}); got != uint64(bits.OnesCount64(xv)) {
				t.Fatalf("w=%d x=%x popcount got %d", w, xv, got)
			}
		}
	}
}
