package sym

import (
	"bufio"
	"fmt"
	"io"
	"os"
	"os/exec"
	"strconv"
	"strings"
	"sync"
	"time"
)

// Eval evaluates t under env (variables by name; missing ones are 0). Apps are looked up in env under "name(args)".
func Eval(t *Term, env map[string]uint64, memo map[*Term]uint64) uint64 {
	if v, ok := memo[t]; ok {
		return v
	}
	m := Mask(t.W)
	a := t.Args
	ev := func(i int) uint64 { return Eval(a[i], env, memo) }
	var r uint64
	switch t.Op {
	case OConst:
		r = t.C
	case OVar:
		r = env[t.Name]
	case ONot:
		r = ^ev(0)
	case OAnd:
		r = m
		for i := range a {
			r &= ev(i)
		}
	case OOr:
		for i := range a {
			r |= ev(i)
		}
	case OXor:
		for i := range a {
			r ^= ev(i)
		}
	case ONeg:
		r = -ev(0)
	case OAdd:
		for i := range a {
			r += ev(i)
		}
	case OMul:
		r = ev(0) * ev(1)
	case OUDiv:
		x, y := ev(0), ev(1)
		if y == 0 {
			r = m
		} else {
			r = x / y
		}
	case OURem:
		x, y := ev(0), ev(1)
		if y == 0 {
			r = x
		} else {
			r = x % y
		}
	case OSDiv:
		x, y := signed(ev(0), t.W), signed(ev(1), t.W)
		switch {
		case y == 0:
			if x < 0 {
				r = 1
			} else {
				r = m
			}
		case y == -1:
			r = uint64(-x)
		default:
			r = uint64(x / y)
		}
	case OSRem:
		x, y := signed(ev(0), t.W), signed(ev(1), t.W)
		switch {
		case y == 0:
			r = uint64(x)
		case y == -1:
			r = 0
		default:
			r = uint64(x % y)
		}
	case OShl:
		x, n := ev(0), ev(1)
		if n >= uint64(t.W) {
			r = 0
		} else {
			r = x << n
		}
	case OLShr:
		x, n := ev(0), ev(1)
		if n >= uint64(t.W) {
			r = 0
		} else {
			r = x >> n
		}
	case OAShr:
		x, n := signed(ev(0), t.W), ev(1)
		if n >= uint64(t.W) {
			n = uint64(t.W) - 1
		}
		r = uint64(x >> n)
	case OConcat:
		for i, x := range a {
			r = r<<x.W | ev(i)
		}
	case OExtract:
		r = ev(0) >> t.Lo()
	case OSExt:
		r = uint64(signed(ev(0), a[0].W))
	case OIte:
		if ev(0)&1 == 1 {
			r = ev(1)
		} else {
			r = ev(2)
		}
	case OEq:
		if ev(0) == ev(1) {
			r = 1
		}
	case OUlt:
		if ev(0) < ev(1) {
			r = 1
		}
	case OSlt:
		if signed(ev(0), a[0].W) < signed(ev(1), a[1].W) {
			r = 1
		}
	case OApp:
		key := t.Name + "("
		for i := range a {
			key += strconv.FormatUint(ev(i), 10) + ","
		}
		r = env[key+")"]
	}
	r &= m
	memo[t] = r
	return r
}

// ---------------------------------------------------------------- SMT-LIB emission

func bvlit(w uint8, v uint64) string {
	if w%4 == 0 {
		return fmt.Sprintf("#x%0*x", int(w/4), v)
	}
	return fmt.Sprintf("#b%0*b", int(w), v)
}

// Emitter writes define-funs for terms incrementally (each term once per emitter lifetime / reset).
type Emitter struct {
	w       io.Writer
	lets    strings.Builder
	done    map[*Term]bool
	NDefs   int
	declApp map[string]bool
}

func NewEmitter(w io.Writer) *Emitter {
	return &Emitter{w: w, done: map[*Term]bool{}, declApp: map[string]bool{}}
}

// Width-1 terms are emitted in sort Bool (solvers handle Boolean structure far better than 1-bit vectors);
// rb gives a Bool-sorted reference to a 1-bit term, rv a BitVec-sorted reference to any term.
func rb(t *Term) string {
	if t.W != 1 {
		panic("rb on wide term")
	}
	switch t.Op {
	case OConst:
		if t.C == 1 {
			return "true"
		}
		return "false"
	case OVar:
		return "(= |" + t.Name + "| #b1)"
	}
	return "t" + strconv.Itoa(int(t.ID))
}

func rv(t *Term) string {
	switch t.Op {
	case OConst:
		return bvlit(t.W, t.C)
	case OVar:
		return "|" + t.Name + "|"
	}
	if t.W == 1 {
		return "(ite t" + strconv.Itoa(int(t.ID)) + " #b1 #b0)"
	}
	return "t" + strconv.Itoa(int(t.ID))
}

func ref(t *Term) string { return rv(t) }

func nest(op string, args []*Term, r func(*Term) string) string {
	// balanced binary nesting for n-ary ops
	if len(args) == 1 {
		return r(args[0])
	}
	if len(args) == 2 {
		return "(" + op + " " + r(args[0]) + " " + r(args[1]) + ")"
	}
	mid := len(args) / 2
	return "(" + op + " " + nest(op, args[:mid], r) + " " + nest(op, args[mid:], r) + ")"
}

// Define makes sure t and everything below it are defined in the solver.
func (e *Emitter) Define(c *Ctx, t *Term) {
	if e.done[t] {
		return
	}
	// iterative post-order
	type fr struct {
		t *Term
		i int
	}
	st := []fr{{t, 0}}
	for len(st) > 0 {
		f := &st[len(st)-1]
		if e.done[f.t] {
			st = st[:len(st)-1]
			continue
		}
		if f.i < len(f.t.Args) {
			ch := f.t.Args[f.i]
			f.i++
			if !e.done[ch] {
				st = append(st, fr{ch, 0})
			}
			continue
		}
		e.emit1(c, f.t)
		e.done[f.t] = true
		st = st[:len(st)-1]
	}
}

func (e *Emitter) emit1(c *Ctx, t *Term) {
	a := t.Args
	var body string
	isBool := t.W == 1
	switch t.Op {
	case OConst:
		return
	case OVar:
		fmt.Fprintf(e.w, "(declare-const |%s| (_ BitVec %d))\n", t.Name, t.W)
		return
	case ONot:
		if isBool {
			body = "(not " + rb(a[0]) + ")"
		} else {
			body = "(bvnot " + rv(a[0]) + ")"
		}
	case ONeg:
		if isBool {
			body = rb(a[0]) // -x == x on one bit
		} else {
			body = "(bvneg " + rv(a[0]) + ")"
		}
	case OAnd, OOr, OXor:
		if isBool {
			body = nest(map[Op]string{OAnd: "and", OOr: "or", OXor: "xor"}[t.Op], a, rb)
		} else {
			body = nest(opNames[t.Op], a, rv)
		}
	case OAdd:
		if isBool {
			body = nest("xor", a, rb)
		} else {
			body = nest("bvadd", a, rv)
		}
	case OConcat:
		body = nest("concat", a, rv)
	case OMul, OUDiv, OURem, OSDiv, OSRem, OShl, OLShr, OAShr:
		body = "(" + opNames[t.Op] + " " + rv(a[0]) + " " + rv(a[1]) + ")"
		if isBool {
			body = "(= " + body + " #b1)"
		}
	case OExtract:
		body = fmt.Sprintf("((_ extract %d %d) %s)", t.Hi(), t.Lo(), rv(a[0]))
		if isBool {
			body = "(= " + body + " #b1)"
		}
	case OSExt:
		body = fmt.Sprintf("((_ sign_extend %d) %s)", t.W-a[0].W, rv(a[0]))
	case OIte:
		if isBool {
			body = fmt.Sprintf("(ite %s %s %s)", rb(a[0]), rb(a[1]), rb(a[2]))
		} else {
			body = fmt.Sprintf("(ite %s %s %s)", rb(a[0]), rv(a[1]), rv(a[2]))
		}
	case OEq:
		if a[0].W == 1 {
			body = fmt.Sprintf("(= %s %s)", rb(a[0]), rb(a[1]))
		} else {
			body = fmt.Sprintf("(= %s %s)", rv(a[0]), rv(a[1]))
		}
	case OUlt, OSlt:
		body = fmt.Sprintf("(%s %s %s)", opNames[t.Op], rv(a[0]), rv(a[1]))
	case OApp:
		if !e.declApp[t.Name] {
			e.declApp[t.Name] = true
			sig := c.Apps[t.Name]
			var sb strings.Builder
			for _, w := range sig[1:] {
				fmt.Fprintf(&sb, "(_ BitVec %d) ", w)
			}
			fmt.Fprintf(e.w, "(declare-fun |%s| (%s) (_ BitVec %d))\n", t.Name, sb.String(), sig[0])
		}
		var sb strings.Builder
		sb.WriteString("(|" + t.Name + "|")
		for _, x := range a {
			sb.WriteString(" " + rv(x))
		}
		sb.WriteString(")")
		body = sb.String()
		if isBool {
			body = "(= " + body + " #b1)"
		}
	default:
		panic("emit: unknown op")
	}
	// nested let bindings inside one assertion: z3 is pathologically slow with tens of thousands of
	// nullary define-funs (measured: >60 s vs 0.2 s for the same 68k definitions)
	fmt.Fprintf(&e.lets, "(let ((t%d %s))\n", t.ID, body)
	e.NDefs++
}

// ---------------------------------------------------------------- solver processes

type Result int

const (
	Unsat Result = iota
	Sat
	Unknown
)

func (r Result) String() string { return [...]string{"unsat", "sat", "unknown"}[r] }

// Query is one self-contained satisfiability question: the conjunction of Asserts (1-bit terms).
type Query struct {
	C       *Ctx
	Asserts []*Term
}

// Text renders the query (definitions of the cone of influence + assertions) and returns the variables it mentions.
func (q *Query) Text() (string, []*Term, int) {
	var sb strings.Builder
	em := NewEmitter(&sb) // declarations go to sb, definitions to em.lets
	for _, a := range q.Asserts {
		if a.W != 1 {
			panic("assert of non-boolean")
		}
		em.Define(q.C, a)
	}
	sb.WriteString("(assert\n")
	sb.WriteString(em.lets.String())
	if len(q.Asserts) == 1 {
		sb.WriteString(rb(q.Asserts[0]))
	} else {
		sb.WriteString("(and")
		for _, a := range q.Asserts {
			sb.WriteString(" " + rb(a))
		}
		sb.WriteString(")")
	}
	sb.WriteString(strings.Repeat(")", em.NDefs))
	sb.WriteString(")\n")
	var vars []*Term
	for _, v := range q.C.Vars {
		if em.done[v] {
			vars = append(vars, v)
		}
	}
	return sb.String(), vars, em.NDefs
}

// Proc is a persistent solver process fed one (reset)-separated query at a time.
type Proc struct {
	Kind string
	cmd  *exec.Cmd
	in   *bufio.Writer
	raw  io.WriteCloser
	out  *bufio.Reader
	dead bool
	mu   sync.Mutex
}

func startProc(kind string, softMs int) (*Proc, error) {
	var cmd *exec.Cmd
	switch kind {
	case "z3", "z3-new":
		cmd = exec.Command(kind, "-in", fmt.Sprintf("-t:%d", softMs))
	case "cvc5":
		cmd = exec.Command("cvc5", "--incremental", "--lang=smt2", "--produce-models", fmt.Sprintf("--tlimit-per=%d", softMs))
	default:
		return nil, fmt.Errorf("unknown solver %q", kind)
	}
	stdin, err := cmd.StdinPipe()
	if err != nil {
		return nil, err
	}
	stdout, err := cmd.StdoutPipe()
	if err != nil {
		return nil, err
	}
	cmd.Stderr = cmd.Stdout
	if err := cmd.Start(); err != nil {
		return nil, err
	}
	return &Proc{Kind: kind, cmd: cmd, raw: stdin, in: bufio.NewWriterSize(stdin, 1<<20), out: bufio.NewReaderSize(stdout, 1<<20)}, nil
}

func (p *Proc) kill() {
	p.mu.Lock()
	defer p.mu.Unlock()
	if !p.dead {
		p.dead = true
		p.cmd.Process.Kill()
		go p.cmd.Wait()
	}
}

func (p *Proc) readUntilDone() (string, error) {
	var sb strings.Builder
	for {
		l, err := p.out.ReadString('\n')
		if err != nil {
			return sb.String(), err
		}
		l = strings.TrimSpace(l)
		if strings.Trim(l, `"`) == "<<done>>" {
			return sb.String(), nil
		}
		sb.WriteString(l)
		sb.WriteString("\n")
	}
}

// run sends one query; on Sat it also fetches the model.
func (p *Proc) run(text string, vars []*Term) (Result, map[string]uint64, string) {
	if p.Kind == "cvc5" {
		fmt.Fprintln(p.in, "(reset)\n(set-logic ALL)")
	} else {
		fmt.Fprintln(p.in, "(reset)")
	}
	fmt.Fprintln(p.in, "(set-option :produce-models true)")
	p.in.WriteString(text)
	fmt.Fprintln(p.in, "(check-sat)")
	fmt.Fprintln(p.in, `(echo "<<done>>")`)
	if err := p.in.Flush(); err != nil {
		return Unknown, nil, "solver write failed: " + err.Error()
	}
	out, err := p.readUntilDone()
	if err != nil {
		return Unknown, nil, "solver died: " + err.Error() + " " + out
	}
	lines := strings.Fields(out)
	res := Unknown
	if len(lines) == 1 {
		switch lines[0] {
		case "sat":
			res = Sat
		case "unsat":
			res = Unsat
		}
	}
	if res == Unknown {
		// any extra output (errors, warnings) makes the answer inconclusive
		return Unknown, nil, "inconclusive: " + strings.TrimSpace(out)
	}
	if res == Unsat {
		return res, nil, ""
	}
	model := map[string]uint64{}
	const chunk = 200
	for i := 0; i < len(vars); i += chunk {
		j := min(i+chunk, len(vars))
		var sb strings.Builder
		sb.WriteString("(get-value (")
		for _, v := range vars[i:j] {
			sb.WriteString("|" + v.Name + "| ")
		}
		sb.WriteString("))")
		fmt.Fprintln(p.in, sb.String())
		fmt.Fprintln(p.in, `(echo "<<done>>")`)
		if err := p.in.Flush(); err != nil {
			return Unknown, nil, "solver write failed: " + err.Error()
		}
		t, err := p.readUntilDone()
		if err != nil {
			return Unknown, nil, "solver died during get-value: " + err.Error()
		}
		if strings.Contains(t, "(error") {
			return Unknown, nil, "get-value: " + t
		}
		parseValues(strings.ReplaceAll(t, "\n", " "), model)
	}
	return res, model, ""
}

// Pool holds one process per solver kind for one worker and races them on each query.
type Pool struct {
	Kinds   []string
	SoftMs  int
	procs   map[string]*Proc
	Queries int
	Time    time.Duration
	Wins    map[string]int
	LogDir  string
	logSeq  int
}

func NewPool(kinds []string, softMs int) *Pool {
	return &Pool{Kinds: kinds, SoftMs: softMs, procs: map[string]*Proc{}, Wins: map[string]int{}}
}

func (pl *Pool) Close() {
	for _, p := range pl.procs {
		p.kill()
	}
	pl.procs = map[string]*Proc{}
}

func (pl *Pool) proc(kind string) (*Proc, error) {
	if p, ok := pl.procs[kind]; ok && !p.dead {
		return p, nil
	}
	p, err := startProc(kind, pl.SoftMs)
	if err != nil {
		return nil, err
	}
	pl.procs[kind] = p
	return p, nil
}

type answer struct {
	kind  string
	res   Result
	model map[string]uint64
	msg   string
}

// Solve races the configured solvers on q; the first definitive answer wins and the others are killed.
// Every solver gets a hard wall-clock limit of 1.25x the soft limit (old z3 does not always honour -t).
func (pl *Pool) Solve(q *Query) (Result, map[string]uint64, string, string) {
	t0 := time.Now()
	defer func() { pl.Time += time.Since(t0); pl.Queries++ }()
	text, vars, _ := q.Text()
	if pl.LogDir != "" {
		pl.logSeq++
		os.WriteFile(fmt.Sprintf("%s/q%04d.smt2", pl.LogDir, pl.logSeq), []byte(text+"(check-sat)\n"), 0o644)
	}
	ch := make(chan answer, len(pl.Kinds))
	var running []*Proc
	for _, k := range pl.Kinds {
		p, err := pl.proc(k)
		if err != nil {
			ch <- answer{kind: k, res: Unknown, msg: err.Error()}
			continue
		}
		running = append(running, p)
		go func(p *Proc) {
			r, m, msg := p.run(text, vars)
			ch <- answer{p.Kind, r, m, msg}
		}(p)
	}
	hard := time.After(time.Duration(pl.SoftMs)*time.Millisecond*5/4 + 2*time.Second)
	var msgs []string
	for n := 0; n < len(pl.Kinds); n++ {
		select {
		case a := <-ch:
			if a.res != Unknown {
				for _, p := range running {
					if p.Kind != a.kind {
						p.kill() // still busy with this query
					}
				}
				pl.Wins[a.kind]++
				return a.res, a.model, a.kind, ""
			}
			msgs = append(msgs, a.kind+": "+a.msg)
			// the process stays usable unless it died
			if strings.Contains(a.msg, "died") || strings.Contains(a.msg, "write failed") {
				if p := pl.procs[a.kind]; p != nil {
					p.kill()
				}
			}
		case <-hard:
			for _, p := range running {
				p.kill()
			}
			return Unknown, nil, "", "hard timeout; " + strings.Join(msgs, "; ")
		}
	}
	return Unknown, nil, "", strings.Join(msgs, "; ")
}

// parseValues parses "((|name| #x..) (|n2| #b..))".
func parseValues(t string, res map[string]uint64) {
	i := 0
	for i < len(t) {
		// find a name
		var name string
		switch {
		case t[i] == '|':
			j := strings.IndexByte(t[i+1:], '|')
			if j < 0 {
				return
			}
			name = t[i+1 : i+1+j]
			i = i + 1 + j + 1
		default:
			i++
			continue
		}
		// skip spaces
		for i < len(t) && t[i] == ' ' {
			i++
		}
		if i+1 < len(t) && t[i] == '#' {
			base := 16
			if t[i+1] == 'b' {
				base = 2
			}
			j := i + 2
			for j < len(t) && t[j] != ')' && t[j] != ' ' {
				j++
			}
			v, _ := strconv.ParseUint(t[i+2:j], base, 64)
			res[name] = v
			i = j
		} else if strings.HasPrefix(t[i:], "(_ bv") {
			j := i + 5
			k := j
			for k < len(t) && t[k] != ' ' {
				k++
			}
			v, _ := strconv.ParseUint(t[j:k], 10, 64)
			res[name] = v
			i = k
		}
	}
}
