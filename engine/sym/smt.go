package sym

import (
	"bufio"
	"fmt"
	"io"
	"os/exec"
	"strconv"
	"strings"
	"time"
)

// Eval evaluates t under env (variables by name; missing ones are 0). Apps are looked up in env under "name(args)".
func Eval(t *Term, env map[string]uint64, memo map[*Term]uint64) uint64 {
	if v, ok := memo[t]; ok {
		return v
	}
	m := Mask(t.W)
	a := t.Args
	ev := func(i int) uint64 { return Eval(a[i], env, memo) }
	var r uint64
	switch t.Op {
	case OConst:
		r = t.C
	case OVar:
		r = env[t.Name]
	case ONot:
		r = ^ev(0)
	case OAnd:
		r = m
		for i := range a {
			r &= ev(i)
		}
	case OOr:
		for i := range a {
			r |= ev(i)
		}
	case OXor:
		for i := range a {
			r ^= ev(i)
		}
	case ONeg:
		r = -ev(0)
	case OAdd:
		for i := range a {
			r += ev(i)
		}
	case OMul:
		r = ev(0) * ev(1)
	case OUDiv:
		x, y := ev(0), ev(1)
		if y == 0 {
			r = m
		} else {
			r = x / y
		}
	case OURem:
		x, y := ev(0), ev(1)
		if y == 0 {
			r = x
		} else {
			r = x % y
		}
	case OSDiv:
		x, y := signed(ev(0), t.W), signed(ev(1), t.W)
		switch {
		case y == 0:
			if x < 0 {
				r = 1
			} else {
				r = m
			}
		case y == -1:
			r = uint64(-x)
		default:
			r = uint64(x / y)
		}
	case OSRem:
		x, y := signed(ev(0), t.W), signed(ev(1), t.W)
		switch {
		case y == 0:
			r = uint64(x)
		case y == -1:
			r = 0
		default:
			r = uint64(x % y)
		}
	case OShl:
		x, n := ev(0), ev(1)
		if n >= uint64(t.W) {
			r = 0
		} else {
			r = x << n
		}
	case OLShr:
		x, n := ev(0), ev(1)
		if n >= uint64(t.W) {
			r = 0
		} else {
			r = x >> n
		}
	case OAShr:
		x, n := signed(ev(0), t.W), ev(1)
		if n >= uint64(t.W) {
			n = uint64(t.W) - 1
		}
		r = uint64(x >> n)
	case OConcat:
		for i, x := range a {
			r = r<<x.W | ev(i)
		}
	case OExtract:
		r = ev(0) >> t.Lo()
	case OSExt:
		r = uint64(signed(ev(0), a[0].W))
	case OIte:
		if ev(0)&1 == 1 {
			r = ev(1)
		} else {
			r = ev(2)
		}
	case OEq:
		if ev(0) == ev(1) {
			r = 1
		}
	case OUlt:
		if ev(0) < ev(1) {
			r = 1
		}
	case OSlt:
		if signed(ev(0), a[0].W) < signed(ev(1), a[1].W) {
			r = 1
		}
	case OApp:
		key := t.Name + "("
		for i := range a {
			key += strconv.FormatUint(ev(i), 10) + ","
		}
		r = env[key+")"]
	}
	r &= m
	memo[t] = r
	return r
}

// ---------------------------------------------------------------- SMT-LIB emission

func bvlit(w uint8, v uint64) string {
	if w%4 == 0 {
		return fmt.Sprintf("#x%0*x", int(w/4), v)
	}
	return fmt.Sprintf("#b%0*b", int(w), v)
}

// Emitter writes define-funs for terms incrementally (each term once per emitter lifetime / reset).
type Emitter struct {
	w       io.Writer
	done    map[*Term]bool
	NDefs   int
	declApp map[string]bool
}

func NewEmitter(w io.Writer) *Emitter {
	return &Emitter{w: w, done: map[*Term]bool{}, declApp: map[string]bool{}}
}

func ref(t *Term) string {
	switch t.Op {
	case OConst:
		return bvlit(t.W, t.C)
	case OVar:
		return "|" + t.Name + "|"
	}
	return "t" + strconv.Itoa(int(t.ID))
}

func nest(op string, args []*Term) string {
	// balanced binary nesting for n-ary ops
	if len(args) == 1 {
		return ref(args[0])
	}
	if len(args) == 2 {
		return "(" + op + " " + ref(args[0]) + " " + ref(args[1]) + ")"
	}
	mid := len(args) / 2
	return "(" + op + " " + nest(op, args[:mid]) + " " + nest(op, args[mid:]) + ")"
}

// Define makes sure t and everything below it are defined in the solver.
func (e *Emitter) Define(c *Ctx, t *Term) {
	if e.done[t] {
		return
	}
	// iterative post-order
	type fr struct {
		t *Term
		i int
	}
	st := []fr{{t, 0}}
	for len(st) > 0 {
		f := &st[len(st)-1]
		if e.done[f.t] {
			st = st[:len(st)-1]
			continue
		}
		if f.i < len(f.t.Args) {
			ch := f.t.Args[f.i]
			f.i++
			if !e.done[ch] {
				st = append(st, fr{ch, 0})
			}
			continue
		}
		e.emit1(c, f.t)
		e.done[f.t] = true
		st = st[:len(st)-1]
	}
}

func (e *Emitter) emit1(c *Ctx, t *Term) {
	a := t.Args
	var body string
	switch t.Op {
	case OConst:
		return
	case OVar:
		fmt.Fprintf(e.w, "(declare-const |%s| (_ BitVec %d))\n", t.Name, t.W)
		return
	case ONot, ONeg:
		body = "(" + opNames[t.Op] + " " + ref(a[0]) + ")"
	case OAnd, OOr, OXor, OAdd, OConcat:
		body = nest(opNames[t.Op], a)
	case OMul, OUDiv, OURem, OSDiv, OSRem, OShl, OLShr, OAShr:
		body = "(" + opNames[t.Op] + " " + ref(a[0]) + " " + ref(a[1]) + ")"
	case OExtract:
		body = fmt.Sprintf("((_ extract %d %d) %s)", t.Hi(), t.Lo(), ref(a[0]))
	case OSExt:
		body = fmt.Sprintf("((_ sign_extend %d) %s)", t.W-a[0].W, ref(a[0]))
	case OIte:
		body = fmt.Sprintf("(ite (= %s #b1) %s %s)", ref(a[0]), ref(a[1]), ref(a[2]))
	case OEq:
		body = fmt.Sprintf("(ite (= %s %s) #b1 #b0)", ref(a[0]), ref(a[1]))
	case OUlt, OSlt:
		body = fmt.Sprintf("(ite (%s %s %s) #b1 #b0)", opNames[t.Op], ref(a[0]), ref(a[1]))
	case OApp:
		if !e.declApp[t.Name] {
			e.declApp[t.Name] = true
			sig := c.Apps[t.Name]
			var sb strings.Builder
			for _, w := range sig[1:] {
				fmt.Fprintf(&sb, "(_ BitVec %d) ", w)
			}
			fmt.Fprintf(e.w, "(declare-fun |%s| (%s) (_ BitVec %d))\n", t.Name, sb.String(), sig[0])
		}
		var sb strings.Builder
		sb.WriteString("(|" + t.Name + "|")
		for _, x := range a {
			sb.WriteString(" " + ref(x))
		}
		sb.WriteString(")")
		body = sb.String()
	default:
		panic("emit: unknown op")
	}
	fmt.Fprintf(e.w, "(define-fun t%d () (_ BitVec %d) %s)\n", t.ID, t.W, body)
	e.NDefs++
}

// ---------------------------------------------------------------- solver process

type Result int

const (
	Unsat Result = iota
	Sat
	Unknown
)

func (r Result) String() string { return [...]string{"unsat", "sat", "unknown"}[r] }

type Solver struct {
	Name    string
	cmd     *exec.Cmd
	in      *bufio.Writer
	inRaw   io.WriteCloser
	out     *bufio.Reader
	Em      *Emitter
	Queries int
	Time    time.Duration
	Log     io.Writer // optional transcript
	kind    string
}

// solver kinds: "z3", "z3-new", "cvc5"
func StartSolver(kind string, timeoutMs int) (*Solver, error) {
	var cmd *exec.Cmd
	switch kind {
	case "z3", "z3-new":
		cmd = exec.Command(kind, "-in", fmt.Sprintf("-t:%d", timeoutMs))
	case "cvc5":
		cmd = exec.Command("cvc5", "--incremental", "--lang=smt2", "--produce-models", fmt.Sprintf("--tlimit-per=%d", timeoutMs))
	default:
		return nil, fmt.Errorf("unknown solver %q", kind)
	}
	stdin, err := cmd.StdinPipe()
	if err != nil {
		return nil, err
	}
	stdout, err := cmd.StdoutPipe()
	if err != nil {
		return nil, err
	}
	cmd.Stderr = cmd.Stdout
	if err := cmd.Start(); err != nil {
		return nil, err
	}
	s := &Solver{Name: kind, kind: kind, cmd: cmd, inRaw: stdin, in: bufio.NewWriterSize(stdin, 1<<20), out: bufio.NewReaderSize(stdout, 1<<20)}
	s.Em = NewEmitter(s)
	if kind == "cvc5" {
		fmt.Fprintln(s.in, "(set-logic ALL)")
	}
	fmt.Fprintln(s.in, "(set-option :produce-models true)")
	return s, nil
}

func (s *Solver) Write(p []byte) (int, error) {
	if s.Log != nil {
		s.Log.Write(p)
	}
	return s.in.Write(p)
}

func (s *Solver) Close() {
	if s.cmd != nil {
		fmt.Fprintln(s.in, "(exit)")
		s.in.Flush()
		s.inRaw.Close()
		done := make(chan struct{})
		go func() { s.cmd.Wait(); close(done) }()
		select {
		case <-done:
		case <-time.After(2 * time.Second):
			s.cmd.Process.Kill()
		}
		s.cmd = nil
	}
}

// Reset forgets all definitions (solver (reset)).
func (s *Solver) Reset() {
	fmt.Fprintln(s, "(reset)")
	if s.kind == "cvc5" {
		fmt.Fprintln(s, "(set-logic ALL)")
	}
	fmt.Fprintln(s, "(set-option :produce-models true)")
	s.Em = NewEmitter(s)
}

func (s *Solver) Push() { fmt.Fprintln(s, "(push 1)") }
func (s *Solver) Pop()  { fmt.Fprintln(s, "(pop 1)") }

// Assert asserts that the 1-bit term t is true.
func (s *Solver) Assert(c *Ctx, t *Term) {
	if t.W != 1 {
		panic("assert of non-boolean")
	}
	s.Em.Define(c, t)
	fmt.Fprintf(s, "(assert (= %s #b1))\n", ref(t))
}

func (s *Solver) readLine() (string, error) {
	l, err := s.out.ReadString('\n')
	return strings.TrimSpace(l), err
}

// Check runs check-sat. Any error line makes the result Unknown with the message.
func (s *Solver) Check() (Result, string) {
	t0 := time.Now()
	fmt.Fprintln(s, "(check-sat)")
	fmt.Fprintln(s, `(echo "<<done>>")`)
	s.in.Flush()
	res := Unknown
	msg := ""
	got := false
	bad := false
	for {
		l, err := s.readLine()
		if err != nil {
			s.Time += time.Since(t0)
			return Unknown, "solver died: " + err.Error() + " " + msg
		}
		l2 := strings.Trim(l, `"`)
		if l2 == "<<done>>" {
			break
		}
		switch {
		case l == "sat" && !got:
			res, got = Sat, true
		case l == "unsat" && !got:
			res, got = Unsat, true
		case l == "unknown" || l == "timeout":
			res, got = Unknown, true
			msg += l + " "
		case l == "":
		default:
			bad = true
			msg += l + " "
		}
	}
	s.Queries++
	s.Time += time.Since(t0)
	if bad || !got {
		return Unknown, "inconclusive: " + msg
	}
	return res, msg
}

// Model fetches values for the given variables after a Sat answer.
func (s *Solver) Model(vars []*Term) (map[string]uint64, error) {
	res := map[string]uint64{}
	const chunk = 200
	for i := 0; i < len(vars); i += chunk {
		j := min(i+chunk, len(vars))
		var sb strings.Builder
		sb.WriteString("(get-value (")
		n := 0
		for _, v := range vars[i:j] {
			if s.Em.done[v] {
				sb.WriteString(ref(v) + " ")
				n++
			}
		}
		sb.WriteString("))")
		if n == 0 {
			continue
		}
		fmt.Fprintln(s, sb.String())
		fmt.Fprintln(s, `(echo "<<done>>")`)
		s.in.Flush()
		var txt strings.Builder
		for {
			l, err := s.readLine()
			if err != nil {
				return nil, err
			}
			if strings.Trim(l, `"`) == "<<done>>" {
				break
			}
			txt.WriteString(l + " ")
		}
		t := txt.String()
		if strings.Contains(t, "(error") {
			return nil, fmt.Errorf("get-value: %s", t)
		}
		parseValues(t, res)
	}
	return res, nil
}

// parseValues parses "((|name| #x..) (|n2| #b..))".
func parseValues(t string, res map[string]uint64) {
	i := 0
	for i < len(t) {
		// find a name
		var name string
		switch {
		case t[i] == '|':
			j := strings.IndexByte(t[i+1:], '|')
			if j < 0 {
				return
			}
			name = t[i+1 : i+1+j]
			i = i + 1 + j + 1
		default:
			i++
			continue
		}
		// skip spaces
		for i < len(t) && t[i] == ' ' {
			i++
		}
		if i+1 < len(t) && t[i] == '#' {
			base := 16
			if t[i+1] == 'b' {
				base = 2
			}
			j := i + 2
			for j < len(t) && t[j] != ')' && t[j] != ' ' {
				j++
			}
			v, _ := strconv.ParseUint(t[i+2:j], base, 64)
			res[name] = v
			i = j
		} else if strings.HasPrefix(t[i:], "(_ bv") {
			j := i + 5
			k := j
			for k < len(t) && t[k] != ' ' {
				k++
			}
			v, _ := strconv.ParseUint(t[j:k], 10, 64)
			res[name] = v
			i = k
		}
	}
}
