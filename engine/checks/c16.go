package checks

import (
	vexec "vp/exec"
	"vp/run"
)

func init() {
	Reg["C16"] = func(tier string, seed int64) *Spec {
		s := &Spec{
			Prop: "C16",
			Pkgs: []string{"heur", "picker"},
			Bounds: []string{
				"history gravity: every stored value in [-1024,1024] x every 16-bit bonus (one inductive step from the zero table; any update sequence follows by induction); table indices concrete (the update code does not depend on them)",
				"quiet rank: three arbitrary in-band table entries, 0/1/2+ entries on the history stack, any moved/previous piece types",
				"noisy rank: any attacker, victim <= Queen, any legal promotion piece, capture history in band, SEE abstracted as an arbitrary boolean",
			},
			Stubs: []string{"heur.SEE -> arbitrary boolean (uninterpreted), only in the noisy-band harness"},
		}
		seeStub := func(x *vexec.Exec, w *run.World) {
			n := 0
			x.Stub(run.ModPath+"/heur.SEE", func(x *vexec.Exec, args []vexec.Val, g *vexec.Term) vexec.Val {
				n++
				return x.C.Var(1, "see_result")
			})
		}
		s.Instances = append(s.Instances,
			run.Instance{Pkg: "heur", Func: "VpH_C16_gravity"},
			run.Instance{Pkg: "heur", Func: "VpH_C16_quietband", Params: map[string]int64{"stm": 0}},
			run.Instance{Pkg: "heur", Func: "VpH_C16_quietband", Params: map[string]int64{"stm": 1}},
			run.Instance{Pkg: "heur", Func: "VpH_C16_noisyband", Opt: run.Options{Setup: seeStub}})
		return s
	}
}
