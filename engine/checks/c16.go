package checks

import (
	"fmt"
	"go/types"

	vexec "vp/exec"
	"vp/run"
	"vp/sym"
)

func init() {
	Reg["C16"] = func(tier string, seed int64) *Spec {
		s := &Spec{
			Prop: "C16",
			Pkgs: []string{"heur", "picker"},
			Bounds: []string{
				"history gravity: every stored value in [-1024,1024] x every 16-bit bonus (one inductive step from the zero table; any update sequence follows by induction); table indices concrete (the update code does not depend on them)",
				"quiet rank: three arbitrary in-band table entries, 0/1/2+ entries on the history stack, any moved/previous piece types",
				"noisy rank: any attacker, victim <= Queen, any legal promotion piece, capture history in band, SEE abstracted as an arbitrary boolean",
			},
			Stubs: []string{"heur.SEE -> arbitrary boolean (uninterpreted), only in the noisy-band harness"},
		}
		seeStub := func(x *vexec.Exec, w *run.World) {
			n := 0
			x.Stub(run.ModPath+"/heur.SEE", func(x *vexec.Exec, args []vexec.Val, g *vexec.Term) vexec.Val {
				n++
				return x.C.Var(1, "see_result")
			})
		}
		s.Instances = append(s.Instances,
			run.Instance{Pkg: "heur", Func: "VpH_C16_gravity"},
			run.Instance{Pkg: "heur", Func: "VpH_C16_quietband", Params: map[string]int64{"stm": 0}},
			run.Instance{Pkg: "heur", Func: "VpH_C16_quietband", Params: map[string]int64{"stm": 1}},
			run.Instance{Pkg: "heur", Func: "VpH_C16_noisyband", Opt: run.Options{Setup: seeStub}})
		for n := int64(1); n <= 6; n++ {
			s.Instances = append(s.Instances, run.Instance{Pkg: "picker", Func: "VpH_C16_select", Params: map[string]int64{"n": n}, Opt: run.Options{LoopBound: 10}})
		}
		maxg := int64(2)
		if tier == "thorough" {
			maxg = 3
		}
		for nn := int64(0); nn <= maxg; nn++ {
			for nq := int64(0); nq <= maxg; nq++ {
				nn, nq := nn, nq
				if nn+nq > 5 {
					continue // 3+3 does not close within 300 s per query (unknown); not claimed
				}
				s.Instances = append(s.Instances, run.Instance{Pkg: "picker", Func: "VpH_C16_run", Params: map[string]int64{"nn": nn, "nq": nq},
					Opt: run.Options{Abstract: true, LoopBound: 12, TimeoutMs: 300000, PanicMode: "ignore", Setup: func(x *vexec.Exec, w *run.World) { pickerContracts(x, w, int(nn), int(nq)) }}})
			}
		}
		// the generator halves split the moves the way the stage contracts say (real generators, per from-square)
		split := sampleFrom(func() []run.Instance {
			var out []run.Instance
			for stm := int64(0); stm < 2; stm++ {
				for from := int64(0); from < 64; from++ {
					out = append(out, run.Instance{Pkg: "movegen", Func: "VpH_C16_split", Params: map[string]int64{"stm": stm, "from": from}, Opt: run.Options{Setup: genObserver}})
				}
			}
			return out
		}(), seed+3, map[bool]int{false: 12, true: 64}[tier == "thorough"])
		s.Instances = append(s.Instances, split...)
		s.Pkgs = append(s.Pkgs, "movegen", "board", "attacks")
		s.SliderSummary = true
		s.Confirm = &ConfirmRun{"picker", "VpV_C16_sweep", "VpV_C16_case"}
		s.Bounds = append(s.Bounds,
			"selection step: frames of 1..6 entries with arbitrary moves, weights and yielded prefix",
			"staged run as a whole: the real Picker.Next iterated to exhaustion on an arbitrary board (64 arbitrary cells, arbitrary e.p. square and side) with ANY 15-bit hash move; generators, pseudo-legality test and rankers under contract: 0..2 (quick) / 0..3 (thorough, at most 5 in total: 3+3 does not close) noisy and as many quiet moves, all arbitrary encodings that are noisy resp. quiet by the split specification VpNoisy; every generated move is yielded exactly once, nothing else is, the hash move comes first iff pseudo-legal",
			"generator split: the REAL GenNoisy emits only captures/promotions/en-passant captures and the REAL GenNotNoisy none of them, from an arbitrary valid position, per (side, from-square) case with symbolic target and promotion bits: quick 12 from-squares per side, thorough all 64",
			"contract-level counterexamples of the staged run are reported only after the native sweep (real picker on the repo's test positions, every generated move and some foreign encodings as hash move) reproduces a failure; otherwise INCONCLUSIVE")
		s.Stubs = append(s.Stubs, "staged run: movegen.GenNoisy/GenNotNoisy -> arbitrary duplicate-free lists of the given lengths obeying the split specification; Board.IsPseudoLegal -> membership in those lists (C05); MoveRanker.RankNoisy/RankQuiet -> arbitrary values in the capture bands / quiet band (this check's band obligations)")
		s.Outside = append(s.Outside, "positions with more than 3+3 generated moves are covered only through the selection-step induction (the stage logic does not depend on the list lengths beyond the loops unrolled here)")
		return s
	}
}

// pickerRankStubs replaces the two rankers by their band contracts (what the band obligations of C16 establish).
func pickerRankStubs(x *vexec.Exec, w *run.World) {
	c := x.C
	k := 0
	x.Stub("(*"+run.ModPath+"/heur.MoveRanker).RankNoisy", func(x *vexec.Exec, a []vexec.Val, g *sym.Term) vexec.Val {
		k++
		r := c.Var(16, fmt.Sprintf("noisy_rank#%d", k))
		good := c.And(c.Sle(c.Const(16, 7168), r), c.Slt(r, c.Const(16, 16384)))
		bad := c.And(c.Sle(r, c.Const(16, uint64(0x10000-7168))), c.Slt(c.Const(16, uint64(0x10000-16384+1)), r)) // above the yield threshold -HashMove+1
		x.Assume(c.Or(good, bad))
		return r
	})
	x.Stub("(*"+run.ModPath+"/heur.MoveRanker).RankQuiet", func(x *vexec.Exec, a []vexec.Val, g *sym.Term) vexec.Val {
		k++
		r := c.Var(16, fmt.Sprintf("quiet_rank#%d", k))
		x.Assume(c.And(c.Sle(c.Const(16, uint64(0x10000-3072)), r), c.Sle(r, c.Const(16, 3072))))
		return r
	})
}

// pickerContracts installs the generator / pseudo-legality / ranker contracts for the whole-run picker harness.
func pickerContracts(x *vexec.Exec, w *run.World, nn, nq int) {
	c := x.C
	mpkg := w.Pkgs[run.ModPath+"/move"]
	allocSel := w.Prog.MethodSets.MethodSet(types.NewPointer(mpkg.Type("Store").Type())).Lookup(mpkg.Pkg, "Alloc")
	allocFn := w.Prog.MethodValue(allocSel)
	noisyFn := w.Func("board", "VpNoisy")
	var gen []*sym.Term
	seen := map[string]bool{}
	mk := func(kind string, n int, wantNoisy bool) func(x *vexec.Exec, a []vexec.Val, g *sym.Term) vexec.Val {
		return func(x *vexec.Exec, a []vexec.Val, g *sym.Term) vexec.Val {
			// the executor reaches a generation stage again on other (mutually exclusive) paths: the list is the same one
			first := !seen[kind]
			seen[kind] = true
			for i := 0; i < n; i++ {
				m := c.ZExt(c.Var(15, fmt.Sprintf("%s_move[%d]", kind, i)), 16)
				if first {
					for _, o := range gen {
						x.Assume(c.Not(c.Eq(m, o))) // duplicate-free, lists disjoint (C01)
					}
					x.Assume(c.Not(c.Eq(m, c.Const(16, 0))))
					isNoisy := x.Call(noisyFn, []vexec.Val{a[1], m}, nil, c.True).(*sym.Term)
					if wantNoisy {
						x.Assume(isNoisy)
					} else {
						x.Assume(c.Not(isNoisy))
					}
					gen = append(gen, m)
				}
				x.Call(allocFn, []vexec.Val{a[0], m}, nil, g)
			}
			return nil
		}
	}
	x.Stub(run.ModPath+"/movegen.GenNoisy", mk("noisy", nn, true))
	x.Stub(run.ModPath+"/movegen.GenNotNoisy", mk("quiet", nq, false))
	x.Stub("(*"+run.ModPath+"/board.Board).IsPseudoLegal", func(x *vexec.Exec, a []vexec.Val, g *sym.Term) vexec.Val {
		// C05: accepted iff generated. The lists are fixed by name, so the answer can be given before generation.
		m := a[1].(*sym.Term)
		r := c.False
		for i := 0; i < nn; i++ {
			r = c.Or(r, c.Eq(m, c.ZExt(c.Var(15, fmt.Sprintf("noisy_move[%d]", i)), 16)))
		}
		for i := 0; i < nq; i++ {
			r = c.Or(r, c.Eq(m, c.ZExt(c.Var(15, fmt.Sprintf("quiet_move[%d]", i)), 16)))
		}
		return r
	})
	pickerRankStubs(x, w)
	x.Stub(run.ModPath+"/picker.vpGenCount", func(x *vexec.Exec, a []vexec.Val, g *sym.Term) vexec.Val {
		return c.Const(64, uint64(nn+nq))
	})
	x.Stub(run.ModPath+"/picker.vpGenMove", func(x *vexec.Exec, a []vexec.Val, g *sym.Term) vexec.Val {
		i := a[0].(*sym.Term)
		if !i.IsConst() {
			return c.Const(16, 0)
		}
		k := int(i.C)
		switch {
		case k < nn:
			return c.ZExt(c.Var(15, fmt.Sprintf("noisy_move[%d]", k)), 16)
		case k < nn+nq:
			return c.ZExt(c.Var(15, fmt.Sprintf("quiet_move[%d]", k-nn)), 16)
		}
		return c.Const(16, 0)
	})
}
