package checks

import (
	"fmt"
	"go/types"

	vexec "vp/exec"
	"vp/run"
	"vp/sym"
)

func init() {
	Reg["C16"] = func(tier string, seed int64) *Spec {
		s := &Spec{
			Prop: "C16",
			Pkgs: []string{"heur", "picker"},
			Bounds: []string{
				"history gravity: every stored value in [-1024,1024] x every 16-bit bonus (one inductive step from the zero table; any update sequence follows by induction); table indices concrete (the update code does not depend on them)",
				"quiet rank: three arbitrary in-band table entries, 0/1/2+ entries on the history stack, any moved/previous piece types",
				"noisy rank: any attacker, victim <= Queen, any legal promotion piece, capture history in band, SEE abstracted as an arbitrary boolean",
			},
			Stubs: []string{"heur.SEE -> arbitrary boolean (uninterpreted), only in the noisy-band harness"},
		}
		seeStub := func(x *vexec.Exec, w *run.World) {
			n := 0
			x.Stub(run.ModPath+"/heur.SEE", func(x *vexec.Exec, args []vexec.Val, g *vexec.Term) vexec.Val {
				n++
				return x.C.Var(1, "see_result")
			})
		}
		s.Instances = append(s.Instances,
			run.Instance{Pkg: "heur", Func: "VpH_C16_gravity"},
			run.Instance{Pkg: "heur", Func: "VpH_C16_quietband", Params: map[string]int64{"stm": 0}},
			run.Instance{Pkg: "heur", Func: "VpH_C16_quietband", Params: map[string]int64{"stm": 1}},
			run.Instance{Pkg: "heur", Func: "VpH_C16_noisyband", Opt: run.Options{Setup: seeStub}})
		for n := int64(1); n <= 6; n++ {
			s.Instances = append(s.Instances, run.Instance{Pkg: "picker", Func: "VpH_C16_select", Params: map[string]int64{"n": n}, Opt: run.Options{LoopBound: 10}})
		}
		maxg := int64(2)
		if tier == "thorough" {
			maxg = 3
		}
		if tier != "diagnostic" {
			maxg = -1 // the whole-run harness against generator contracts is kept for further work only: on the unchanged
			// tree it has counterexamples against the contracts that do not replay (contract or harness still wrong)
		}
		for nn := int64(0); nn <= maxg; nn++ {
			for nq := int64(0); nq <= maxg; nq++ {
				nn, nq := nn, nq
				s.Instances = append(s.Instances, run.Instance{Pkg: "picker", Func: "VpH_C16_run", Params: map[string]int64{"nn": nn, "nq": nq},
					Opt: run.Options{LoopBound: 12, TimeoutMs: 300000, Setup: func(x *vexec.Exec, w *run.World) { pickerContracts(x, w, int(nn), int(nq)) }}})
			}
		}
		s.Bounds = append(s.Bounds,
			"selection step: frames of 1..6 entries with arbitrary moves, weights and yielded prefix",
		)
		s.Outside = append(s.Outside, "the staged run of the picker as a whole (hash move first, every generated move exactly once): a harness against generator contracts exists (tier diagnostic) but does not close; only the selection step and the weight bands are claimed")
		return s
	}
}

// pickerContracts installs the generator / pseudo-legality / ranker contracts for the whole-run picker harness.
func pickerContracts(x *vexec.Exec, w *run.World, nn, nq int) {
	c := x.C
	mpkg := w.Pkgs[run.ModPath+"/move"]
	allocSel := w.Prog.MethodSets.MethodSet(types.NewPointer(mpkg.Type("Store").Type())).Lookup(mpkg.Pkg, "Alloc")
	allocFn := w.Prog.MethodValue(allocSel)
	var gen []*sym.Term
	seen := map[string]bool{}
	mk := func(kind string, n int) func(x *vexec.Exec, a []vexec.Val, g *sym.Term) vexec.Val {
		return func(x *vexec.Exec, a []vexec.Val, g *sym.Term) vexec.Val {
			// the executor may reach a generation stage again on a merged (infeasible) path: the list is the same one
			first := !seen[kind]
			seen[kind] = true
			for i := 0; i < n; i++ {
				m := c.ZExt(c.Var(15, fmt.Sprintf("%s_move[%d]", kind, i)), 16)
				if first {
					for _, o := range gen {
						x.Assume(c.Not(c.Eq(m, o))) // duplicate-free, lists disjoint
					}
					x.Assume(c.Not(c.Eq(m, c.Const(16, 0))))
					gen = append(gen, m)
				}
				x.Call(allocFn, []vexec.Val{a[0], m}, nil, g)
			}
			return nil
		}
	}
	x.Stub(run.ModPath+"/movegen.GenNoisy", mk("noisy", nn))
	x.Stub(run.ModPath+"/movegen.GenNotNoisy", mk("quiet", nq))
	x.Stub("(*"+run.ModPath+"/board.Board).IsPseudoLegal", func(x *vexec.Exec, a []vexec.Val, g *sym.Term) vexec.Val {
		// C05: accepted iff generated. The lists are fixed by name, so the answer can be given before generation.
		m := a[1].(*sym.Term)
		r := c.False
		for i := 0; i < nn; i++ {
			r = c.Or(r, c.Eq(m, c.ZExt(c.Var(15, fmt.Sprintf("noisy_move[%d]", i)), 16)))
		}
		for i := 0; i < nq; i++ {
			r = c.Or(r, c.Eq(m, c.ZExt(c.Var(15, fmt.Sprintf("quiet_move[%d]", i)), 16)))
		}
		return r
	})
	k := 0
	x.Stub("(*"+run.ModPath+"/heur.MoveRanker).RankNoisy", func(x *vexec.Exec, a []vexec.Val, g *sym.Term) vexec.Val {
		k++
		r := c.Var(16, fmt.Sprintf("noisy_rank#%d", k))
		good := c.And(c.Sle(c.Const(16, 7168), r), c.Slt(r, c.Const(16, 16384)))
		bad := c.And(c.Sle(r, c.Const(16, uint64(0x10000-7168))), c.Slt(c.Const(16, uint64(0x10000-16384)), r))
		x.Assume(c.Or(good, bad))
		return r
	})
	x.Stub("(*"+run.ModPath+"/heur.MoveRanker).RankQuiet", func(x *vexec.Exec, a []vexec.Val, g *sym.Term) vexec.Val {
		k++
		r := c.Var(16, fmt.Sprintf("quiet_rank#%d", k))
		x.Assume(c.And(c.Sle(c.Const(16, uint64(0x10000-3072)), r), c.Sle(r, c.Const(16, 3072))))
		return r
	})
	x.Stub(run.ModPath+"/picker.vpGenCount", func(x *vexec.Exec, a []vexec.Val, g *sym.Term) vexec.Val {
		return c.Const(64, uint64(len(gen)))
	})
	x.Stub(run.ModPath+"/picker.vpGenMove", func(x *vexec.Exec, a []vexec.Val, g *sym.Term) vexec.Val {
		i := a[0].(*sym.Term)
		if !i.IsConst() || int(i.C) >= len(gen) {
			return c.Const(16, 0)
		}
		return gen[i.C]
	})
}
