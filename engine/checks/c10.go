package checks

import "vp/run"

func init() {
	Reg["C10"] = func(tier string, seed int64) *Spec {
		s := &Spec{
			Prop: "C10",
			Pkgs: []string{"board", "attacks"},
			Bounds: []string{
				"histories of n = 1..24 (quick) / 1..96 (thorough) plies and n = 129, 130, 135 (beyond the 8-bit halfmove clock and the initial slice capacity), every entry an arbitrary 64-bit hash, the number of trailing reversible plies symbolic and stored in the halfmove clock the way the engine stores it; the scan loop runs concretely for each n",
			},
			Assumptions: []string{
				"A1: no 64-bit Zobrist collisions (equal hash <=> equal position); with C04 (hash is a function of the position, maintained incrementally) and C02 (e.p. recorded iff capturable) this makes hash equality position equality for histories produced by MakeMove",
				"A4: a position from before the last irreversible move cannot recur (hashes further back than the reversible-ply count differ from the current one)",
				"A2: entries an odd number of plies back have the other side to move and never equal the current hash; A3: a position cannot recur after exactly two plies",
			},
			Exclusions: []string{"fen-dead-ep-hashed"},
			Witnesses: map[string]run.Instance{
				"fen-dead-ep-hashed": {Pkg: "board", Func: "VpH_C10_deadep", Params: map[string]int64{"stm": 1, "king": 60}},
			},
			Outside: []string{"start positions loaded from a FEN that records an en-passant target no pawn can capture on (known finding: the target is kept and hashed)"},
		}
		maxn := int64(24)
		if tier == "thorough" {
			maxn = 96
		}
		ns := []int64{129, 130, 135}
		for n := int64(1); n <= maxn; n++ {
			ns = append(ns, n)
		}
		for _, n := range ns {
			s.Instances = append(s.Instances, run.Instance{Pkg: "board", Func: "VpH_C10_count", Params: map[string]int64{"n": n}})
		}
		for stm := int64(0); stm < 2; stm++ {
			s.Instances = append(s.Instances, run.Instance{Pkg: "board", Func: "VpH_C10_start", Params: map[string]int64{"stm": stm}})
		}
		// "en-passant capturability" is part of position identity: every double pawn push records (and hashes) a target
		// iff a legal en-passant capture exists in the successor
		s.Pkgs = append(s.Pkgs, "attacks")
		s.SliderSummary = true
		s.Instances = append(s.Instances, doublePushInstances("VpH_C01_eptarget")...)
		s.Bounds = append(s.Bounds, "en-passant capturability as part of position identity: for all 16 double pawn pushes from an ARBITRARY valid position, MakeMove records the en-passant target iff a legal en-passant capture exists in the successor (the same one-step obligation as in C01/C02)")
		s.Stubs = append(s.Stubs, "attacks.RookMoves/BishopMoves -> ray-walk specification, per square, only where the C12 lemma was re-proved on this run (double-push obligations only)")
		return s
	}
}
