package checks

// Abstract-position model for the per-activation search obligations (C06 board restoration, C08 abort-before-store).
//
// The real SSA of alphaBeta / quiescence / iterativeDeepen is executed; what they call is replaced by contracts:
//   - the position is an opaque 64-bit identity kept in Board.fullMoves (which the search never reads);
//     MakeMove(m) maps identity p to mk(p,m) and returns the token tok(p,m) (uninterpreted functions);
//     UndoMove(m,r) maps mk(p,m) back to p iff it is given the same move and token, otherwise to bad(...);
//     this is exactly what C03 establishes for the real MakeMove/UndoMove (make+undo with the returned token is
//     the identity, LIFO nesting), so the harness checks the search's PAIRING discipline on every path;
//   - everything that only reads the position (Threefold, InCheck, Hash, IsCheckmate, IsStalemate, Eval) is an
//     uninterpreted function of the identity; directly read fields (STM, FiftyCnt, piece sets) are arbitrary
//     symbolic values that no stub changes;
//   - recursive alphaBeta/quiescence calls return an arbitrary score, may raise the sticky abort flag, may rewrite
//     deeper PV rows, and leave the position identity unchanged (the induction hypothesis);
//   - abort() may find the stop signal at any poll; the picker yields an arbitrary move or stops at any time;
//     table probes return an arbitrary entry; stores (tt.Insert, FailHigh, pv.insert) are observed.

import (
	"fmt"
	"go/types"

	vexec "vp/exec"
	"vp/run"
	"vp/sym"
)

func fieldIx(t types.Type, name string) int {
	st := t.Underlying().(*types.Struct)
	for i := 0; i < st.NumFields(); i++ {
		if st.Field(i).Name() == name {
			return i
		}
	}
	panic("no field " + name)
}

type printObs struct {
	g, depth, nodes, plen, first, second *sym.Term
}

type insertObs struct{ g, ply, m, lastMade *sym.Term }

type absSearch struct {
	w       *run.World
	boardT  types.Type
	searchT types.Type
	posIx   int
	stmIx   int
	abortIx int
	pvIx    int
	n       int
	searchPtr *vexec.PtrV
	writePV   bool // the recursion contract also rewrites PV row 0 and advances the node counter
	prints    []printObs
	lastMade  *sym.Term // the move of the most recent MakeMove (64 bit), engine-side observation
	inserts   []insertObs
	pvStub    vexec.Intrinsic
}

func (a *absSearch) fresh(x *vexec.Exec, w uint8, what string) *sym.Term {
	a.n++
	return x.C.Var(w, fmt.Sprintf("%s#%d", what, a.n))
}

func (a *absSearch) pos(x *vexec.Exec, b *vexec.PtrV) *sym.Term {
	return x.Load(x.ExtendField(b, a.posIx)).(*sym.Term)
}

func (a *absSearch) setPos(x *vexec.Exec, b *vexec.PtrV, v *sym.Term, g *sym.Term) {
	x.Store(x.ExtendField(b, a.posIx), v, g)
	// every make and undo passes the move to the other side
	sp := x.ExtendField(b, a.stmIx)
	x.Store(sp, x.C.Xor(x.Load(sp).(*sym.Term), x.C.Const(8, 1)), g)
}

// undo maps the current identity back through one make.
func (a *absSearch) undo(x *vexec.Exec, cur, m, r *sym.Term) *sym.Term {
	c := x.C
	switch {
	case cur.Op == sym.OIte:
		return c.Ite(cur.Args[0], a.undo(x, cur.Args[1], m, r), a.undo(x, cur.Args[2], m, r))
	case cur.Op == sym.OApp && cur.Name == "mk":
		p0, m0 := cur.Args[0], cur.Args[1]
		ok := c.And(c.Eq(m, m0), c.Eq(r, c.App("tok", 64, p0, m0)))
		return c.Ite(ok, p0, c.App("bad", 64, cur, m, r))
	}
	return c.App("bad", 64, cur, m, r)
}

// install registers the contracts. observe is called for every persistent store with (site, guard, abortedFlag).
func (a *absSearch) install(x *vexec.Exec, stubRecursion bool, realTop bool, observe func(site string, g, aborted *sym.Term)) {
	c := x.C
	B := "(*" + run.ModPath + "/board.Board)."
	S := "(*" + run.ModPath + "/search.Search)."
	nullMove := c.Const(64, 0xffff)
	m64 := func(v vexec.Val) *sym.Term { return c.ZExt(v.(*sym.Term), 64) }
	x.Stub(B+"MakeMove", func(x *vexec.Exec, v []vexec.Val, g *sym.Term) vexec.Val {
		b := v[0].(*vexec.PtrV)
		p := a.pos(x, b)
		a.setPos(x, b, c.App("mk", 64, p, m64(v[1])), g)
		if a.lastMade == nil {
			a.lastMade = c.Const(64, 0)
		}
		a.lastMade = c.Ite(g, m64(v[1]), a.lastMade)
		return c.App("tok", 64, p, m64(v[1]))
	})
	x.Stub(B+"UndoMove", func(x *vexec.Exec, v []vexec.Val, g *sym.Term) vexec.Val {
		b := v[0].(*vexec.PtrV)
		a.setPos(x, b, a.undo(x, a.pos(x, b), m64(v[1]), v[2].(*sym.Term)), g)
		return nil
	})
	x.Stub(B+"MakeNullMove", func(x *vexec.Exec, v []vexec.Val, g *sym.Term) vexec.Val {
		b := v[0].(*vexec.PtrV)
		p := a.pos(x, b)
		a.setPos(x, b, c.App("mk", 64, p, nullMove), g)
		return c.App("tok", 64, p, nullMove)
	})
	x.Stub(B+"UndoNullMove", func(x *vexec.Exec, v []vexec.Val, g *sym.Term) vexec.Val {
		b := v[0].(*vexec.PtrV)
		a.setPos(x, b, a.undo(x, a.pos(x, b), nullMove, v[1].(*sym.Term)), g)
		return nil
	})
	pure := func(name string, w uint8) {
		x.Stub(B+name, func(x *vexec.Exec, v []vexec.Val, g *sym.Term) vexec.Val {
			args := []*sym.Term{a.pos(x, v[0].(*vexec.PtrV))}
			for _, e := range v[1:] {
				args = append(args, m64(e))
			}
			return c.App("pos_"+name, w, args...)
		})
	}
	pure("Threefold", 8)
	pure("InCheck", 1)
	pure("Hash", 64)
	pure("IsCheckmate", 1)
	pure("IsStalemate", 1)
	x.Stub(run.ModPath+"/eval.Eval[github.com/paulsonkoly/chess-3/chess.Score]", func(x *vexec.Exec, v []vexec.Val, g *sym.Term) vexec.Val {
		return c.App("pos_Eval", 16, a.pos(x, v[0].(*vexec.PtrV)))
	})
	// abort(): the stop signal may have arrived at any poll; the flag is sticky
	x.Stub(S+"abort", func(x *vexec.Exec, v []vexec.Val, g *sym.Term) vexec.Val {
		s := v[0].(*vexec.PtrV)
		fp := x.ExtendField(s, a.abortIx)
		cur := x.Load(fp).(*sym.Term)
		nv := c.Or(cur, a.fresh(x, 1, "stop_seen"))
		x.Store(fp, nv, g)
		return nv
	})
	if stubRecursion {
		spkg0 := a.w.Pkgs[run.ModPath+"/search"]
		sPtr := types.NewPointer(spkg0.Type("Search").Type())
		depth := 0
		for _, name := range []string{"alphaBeta", "quiescence"} {
			sel := a.w.Prog.MethodSets.MethodSet(sPtr).Lookup(spkg0.Pkg, name)
			real := a.w.Prog.MethodValue(sel)
			x.Stub(S+name, func(x *vexec.Exec, v []vexec.Val, g *sym.Term) vexec.Val {
				if depth == 0 && realTop {
					// the activation under test: run the real function; calls made from inside it are abstracted
					depth++
					r := x.Call(real, v, nil, g)
					depth--
					return r
				}
				s := v[0].(*vexec.PtrV)
				fp := x.ExtendField(s, a.abortIx)
				cur := x.Load(fp).(*sym.Term)
				x.Store(fp, c.Or(cur, a.fresh(x, 1, "child_aborted")), g)
				if a.writePV {
					a.rewritePV(x, s, v[len(v)-1].(*vexec.PtrV), g)
				}
				return a.fresh(x, 16, "child_score")
			})
		}
	}
	// move generation: appends an arbitrary short list of arbitrary moves to the store (real Alloc)
	allocSel := a.w.Prog.MethodSets.MethodSet(types.NewPointer(a.w.Pkgs[run.ModPath+"/move"].Type("Store").Type())).Lookup(a.w.Pkgs[run.ModPath+"/move"].Pkg, "Alloc")
	allocFn := a.w.Prog.MethodValue(allocSel)
	gen := func(max int) func(x *vexec.Exec, v []vexec.Val, g *sym.Term) vexec.Val {
		return func(x *vexec.Exec, v []vexec.Val, g *sym.Term) vexec.Val {
			gg := g
			for i := 0; i < max; i++ {
				gg = c.And(gg, a.fresh(x, 1, "generated_more"))
				x.Call(allocFn, []vexec.Val{v[0], a.fresh(x, 16, "generated_move")}, nil, gg)
			}
			return nil
		}
	}
	x.Stub(run.ModPath+"/movegen.GenNoisy", gen(2))
	x.Stub(run.ModPath+"/movegen.GenNotNoisy", gen(1))
	// picker
	P := "(*" + run.ModPath + "/picker.Picker)."
	wT := a.w.Pkgs[run.ModPath+"/move"].Type("Weighted").Type()
	var cur *vexec.PtrV
	x.Stub(P+"Next", func(x *vexec.Exec, v []vexec.Val, g *sym.Term) vexec.Val {
		wv := x.Zero(wT).(*vexec.StructV)
		nw := &vexec.StructV{F: append([]vexec.Val(nil), wv.F...)}
		nw.F[0] = a.fresh(x, 16, "picked_move")
		cur = x.NewObject("picked", wT, nw)
		return a.fresh(x, 1, "picker_has_next")
	})
	x.Stub(P+"Move", func(x *vexec.Exec, v []vexec.Val, g *sym.Term) vexec.Val { return cur })
	x.Stub(P+"YieldedMoves", func(x *vexec.Exec, v []vexec.Val, g *sym.Term) vexec.Val {
		return &vexec.SliceV{Off: c.Const(64, 0), Len: c.Const(64, 0), Cap: c.Const(64, 0)}
	})
	// transposition table
	T := "(*" + run.ModPath + "/transp.Table)."
	eT := a.w.Pkgs[run.ModPath+"/transp"].Type("entry").Type()
	x.Stub(T+"LookUp", func(x *vexec.Exec, v []vexec.Val, g *sym.Term) vexec.Val {
		ev := x.Zero(eT).(*vexec.StructV)
		ne := &vexec.StructV{F: make([]vexec.Val, len(ev.F))}
		for i, f := range ev.F {
			ne.F[i] = a.fresh(x, f.(*sym.Term).W, "tt_entry")
		}
		hit := a.fresh(x, 1, "tt_hit")
		p := x.NewObject("ttentry", eT, ne)
		res := &vexec.PtrV{}
		for _, al := range p.Alts {
			res.Alts = append(res.Alts, vexec.PtrAlt{G: c.And(al.G, hit), Obj: al.Obj, Path: al.Path})
		}
		return &vexec.TupleV{E: []vexec.Val{res, hit}}
	})
	aborted := func(x *vexec.Exec) *sym.Term {
		return x.Load(x.ExtendField(a.searchPtr, a.abortIx)).(*sym.Term)
	}
	x.Stub(T+"Insert", func(x *vexec.Exec, v []vexec.Val, g *sym.Term) vexec.Val {
		observe("tt.Insert", g, aborted(x))
		return nil
	})
	x.Stub("("+run.ModPath+"/transp.Table).HashFull", func(x *vexec.Exec, v []vexec.Val, g *sym.Term) vexec.Val {
		return c.ZExt(a.fresh(x, 10, "hashfull"), 64)
	})
	x.Stub("(*"+run.ModPath+"/heur.MoveRanker).FailHigh", func(x *vexec.Exec, v []vexec.Val, g *sym.Term) vexec.Val {
		observe("ranker.FailHigh", g, aborted(x))
		return nil
	})
	// pv.insert stays real but is observed
	spkg := a.w.Pkgs[run.ModPath+"/search"]
	pvPtr := types.NewPointer(spkg.Type("pv").Type())
	if sel := a.w.Prog.MethodSets.MethodSet(pvPtr).Lookup(spkg.Pkg, "insert"); sel != nil {
		real := a.w.Prog.MethodValue(sel)
		x.Stub(real.String(), func(x *vexec.Exec, v []vexec.Val, g *sym.Term) vexec.Val {
			observe("pv.insert", g, aborted(x))
			lm := a.lastMade
			if lm == nil {
				lm = c.Const(64, 0)
			}
			a.inserts = append(a.inserts, insertObs{g: g, ply: c.SExt(v[1].(*sym.Term), 64), m: m64(v[2]), lastMade: lm})
			delete(x.Intrinsics, real.String())
			r := x.Call(real, v, nil, g)
			a.reinstallPV(x, real.String())
			return r
		})
		a.pvStub = x.Intrinsics[real.String()]
	}
	x.Stub(run.ModPath+"/search.vpRegister", func(x *vexec.Exec, v []vexec.Val, g *sym.Term) vexec.Val {
		a.searchPtr = v[0].(*vexec.PtrV)
		return nil
	})
	x.Stub("(*"+run.ModPath+"/heur.MoveRanker).RankNoisy", func(x *vexec.Exec, v []vexec.Val, g *sym.Term) vexec.Val {
		return a.fresh(x, 16, "rank")
	})
}

// observeInserts installs the harness-side accessors over the pv.insert calls recorded by install.
func (a *absSearch) observeInserts(x *vexec.Exec) {
	c := x.C
	S := run.ModPath + "/search."
	x.Stub(S+"vpInsertedAny", func(x *vexec.Exec, v []vexec.Val, g *sym.Term) vexec.Val {
		r := c.False
		for _, i := range a.inserts {
			r = c.Or(r, i.g)
		}
		return r
	})
	x.Stub(S+"vpInsertsWellFormed", func(x *vexec.Exec, v []vexec.Val, g *sym.Term) vexec.Val {
		ply := c.SExt(v[0].(*sym.Term), 64)
		ok := c.True
		for _, i := range a.inserts {
			ok = c.And(ok, c.Or(c.Not(i.g), c.And(c.Eq(i.ply, ply), c.Eq(i.m, i.lastMade))))
		}
		return ok
	})
}

func (a *absSearch) reinstallPV(x *vexec.Exec, name string) { x.Intrinsics[name] = a.pvStub }

// rewritePV: the contract of a root alphaBeta call as seen by iterativeDeepen: row 0 of the PV buffer holds an
// arbitrary line of arbitrary length afterwards and the node counter has not decreased.
func (a *absSearch) rewritePV(x *vexec.Exec, s, opts *vexec.PtrV, g *sym.Term) {
	c := x.C
	pvPtr := x.Load(x.ExtendField(s, a.pvIx)).(*vexec.PtrV)
	pvT := a.w.Pkgs[run.ModPath+"/search"].Type("pv").Type()
	movesIx, depthIx := fieldIx(pvT, "moves"), fieldIx(pvT, "depth")
	l := c.ZExt(a.fresh(x, 2, "pv_len"), 8) // 0..3 moves is enough to tell first/second/none apart
	x.Store(x.ExtendIndex(x.ExtendField(pvPtr, depthIx), 0), l, g)
	for k := 0; k < 3; k++ {
		mvk := a.fresh(x, 16, "pv_move")
		x.Assume(c.Or(c.Not(g), c.Not(c.Eq(mvk, c.Const(16, 0))))) // a line consists of moves; the null move is not one
		x.Store(x.ExtendIndex(x.ExtendField(pvPtr, movesIx), k), mvk, g)
	}
	oT := a.w.Pkgs[run.ModPath+"/search"].Type("Options").Type()
	cT := a.w.Pkgs[run.ModPath+"/search"].Type("Counters").Type()
	cnt := x.Load(x.ExtendField(opts, fieldIx(oT, "Counters"))).(*vexec.PtrV)
	np := x.ExtendField(cnt, fieldIx(cT, "Nodes"))
	old := x.Load(np).(*sym.Term)
	x.Store(np, c.Add(old, c.ZExt(a.fresh(x, 20, "more_nodes"), 64)), g)
}

// observePrints installs the fmt.Fprintf contract for iterativeDeepen's info lines and the harness-side accessors.
func (a *absSearch) observePrints(x *vexec.Exec) {
	c := x.C
	pvT := a.w.Pkgs[run.ModPath+"/search"].Type("pv").Type()
	movesIx, depthIx := fieldIx(pvT, "moves"), fieldIx(pvT, "depth")
	x.Stub("fmt.Fprintf", func(x *vexec.Exec, v []vexec.Val, g *sym.Term) vexec.Val {
		f, ok := v[1].(*vexec.StringV)
		if ok && !f.IsSym && len(f.Const) > 20 && f.Const[:20] == "info depth %d score " {
			args := v[2].(*vexec.SliceV)
			arg := func(i int) *sym.Term {
				iv := x.SliceElem(args, i).(*vexec.IfaceV)
				return iv.V.(*sym.Term)
			}
			pvPtr := x.Load(x.ExtendField(a.searchPtr, a.pvIx)).(*vexec.PtrV)
			o := printObs{g: g, depth: c.SExt(arg(0), 64), nodes: arg(2),
				plen:   x.Load(x.ExtendIndex(x.ExtendField(pvPtr, depthIx), 0)).(*sym.Term),
				first:  x.Load(x.ExtendIndex(x.ExtendField(pvPtr, movesIx), 0)).(*sym.Term),
				second: x.Load(x.ExtendIndex(x.ExtendField(pvPtr, movesIx), 1)).(*sym.Term)}
			a.prints = append(a.prints, o)
		}
		return &vexec.TupleV{E: []vexec.Val{c.Const(64, 0), &vexec.IfaceV{IsNil: c.True}}}
	})
	S := run.ModPath + "/search."
	last := func(sel func(p printObs) *sym.Term, zero *sym.Term, nonEmpty bool) *sym.Term {
		r := zero
		for _, p := range a.prints { // later prints override earlier ones
			g := p.g
			if nonEmpty {
				g = c.And(g, c.Not(c.Eq(p.plen, c.Const(8, 0))))
			}
			r = c.Ite(g, sel(p), r)
		}
		return r
	}
	x.Stub(S+"vpPrintedAny", func(x *vexec.Exec, v []vexec.Val, g *sym.Term) vexec.Val {
		r := c.False
		for _, p := range a.prints {
			r = c.Or(r, p.g)
		}
		return r
	})
	x.Stub(S+"vpLineAny", func(x *vexec.Exec, v []vexec.Val, g *sym.Term) vexec.Val {
		r := c.False
		for _, p := range a.prints {
			r = c.Or(r, c.And(p.g, c.Not(c.Eq(p.plen, c.Const(8, 0)))))
		}
		return r
	})
	x.Stub(S+"vpLastPrintedDepth", func(x *vexec.Exec, v []vexec.Val, g *sym.Term) vexec.Val {
		return last(func(p printObs) *sym.Term { return p.depth }, c.Const(64, 0), false)
	})
	x.Stub(S+"vpLineLen", func(x *vexec.Exec, v []vexec.Val, g *sym.Term) vexec.Val {
		return c.SExt(last(func(p printObs) *sym.Term { return p.plen }, c.Const(8, 0), true), 64)
	})
	x.Stub(S+"vpLineFirst", func(x *vexec.Exec, v []vexec.Val, g *sym.Term) vexec.Val {
		return last(func(p printObs) *sym.Term { return p.first }, c.Const(16, 0), true)
	})
	x.Stub(S+"vpLineSecond", func(x *vexec.Exec, v []vexec.Val, g *sym.Term) vexec.Val {
		return last(func(p printObs) *sym.Term { return p.second }, c.Const(16, 0), true)
	})
	x.Stub(S+"vpPrintsMonotone", func(x *vexec.Exec, v []vexec.Val, g *sym.Term) vexec.Val {
		ok := c.True
		for i := 0; i < len(a.prints); i++ {
			for j := i + 1; j < len(a.prints); j++ {
				both := c.And(a.prints[i].g, a.prints[j].g)
				good := c.And(c.Slt(a.prints[i].depth, a.prints[j].depth), c.Sle(a.prints[i].nodes, a.prints[j].nodes))
				ok = c.And(ok, c.Or(c.Not(both), good))
			}
		}
		return ok
	})
}
