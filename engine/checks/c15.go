package checks

import (
	vexec "vp/exec"
	"vp/run"
)

func init() {
	Reg["C15"] = func(tier string, seed int64) *Spec {
		s := &Spec{
			Prop: "C15",
			Pkgs: []string{"transp"},
			Bounds: []string{
				"one inductive step (Insert / Clear / LookUp) from an ARBITRARY table state satisfying the bucket invariant J (no two lanes with the same non-zero signature); histories of any length follow by induction",
				"table of n buckets, n in {1,2,3} (quick) / {1..4} (thorough), every bucket fully symbolic (key word + 4 entries); bucket index range separately for every supported size 1..1024 MB",
				"all 64-bit hashes, generations 0..255 (wrap included), depth and plies 0..63, scores -10001..10001, bound types 0..2, any 16-bit move",
			},
			Stubs: []string{
				"transp.vpFakeTable (harness helper building a slice header of symbolic length with no storage; only len() is read by bucketIx)",
			},
			Assumptions: []string{
				"Resize (unsafe pointer arithmetic) is not encoded: a resize followed by Clear is modelled as a cleared table of the new length",
			},
			Outside: []string{"contents after a resize without clear (unspecified by the property)", "HashFull"},
		}
		setup := func(x *vexec.Exec, w *run.World) {
			x.Stub(run.ModPath+"/transp.vpFakeTable", func(x *vexec.Exec, args []vexec.Val, g *vexec.Term) vexec.Val {
				n := args[0].(*vexec.Term)
				tt := w.Pkgs[run.ModPath+"/transp"].Type("Table").Type()
				tv := x.Zero(tt).(*vexec.StructV)
				nf := &vexec.StructV{F: append([]vexec.Val(nil), tv.F...)}
				nf.F[1] = x.FakeSlice(n)
				return x.NewObject("faketable", tt, nf)
			})
		}
		ns := []int64{1, 2, 3}
		if tier == "thorough" {
			ns = []int64{1, 2, 3, 4}
		}
		for _, n := range ns {
			s.Instances = append(s.Instances,
				run.Instance{Pkg: "transp", Func: "VpH_C15_insert", Params: map[string]int64{"n": n}},
				run.Instance{Pkg: "transp", Func: "VpH_C15_clear", Params: map[string]int64{"n": n}})
		}
		s.Instances = append(s.Instances,
			run.Instance{Pkg: "transp", Func: "VpH_C15_match"},
			run.Instance{Pkg: "transp", Func: "VpH_C15_value"},
			run.Instance{Pkg: "transp", Func: "VpH_C15_bucketix", Opt: run.Options{Setup: setup}})
		return s
	}
}
