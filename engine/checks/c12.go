package checks

import "vp/run"

func init() {
	Reg["C12"] = func(tier string, seed int64) *Spec {
		s := &Spec{
			Prop: "C12",
			Pkgs: []string{"attacks"},
			Bounds: []string{
				"no bound on the occupancy: all 2^64 occupancies per square, 64 squares x {rook,bishop} (128 solver queries)",
				"leapers: symbolic square (all 64); pawn helpers: any 64-bit set x both colours; InBetween: all 64x64 pairs (first square case-split, second symbolic)",
			},
			Stubs: []string{
				"table contents (magic attack tables, InBetween) are taken from the real init code executed natively on this run (globals dump); every lookup is symbolic",
			},
			Outside: []string{"nothing within the property's statement"},
		}
		for sq := 0; sq < 64; sq++ {
			s.Instances = append(s.Instances,
				run.Instance{Pkg: "attacks", Func: "VpH_C12_rook", Params: map[string]int64{"sq": int64(sq)}},
				run.Instance{Pkg: "attacks", Func: "VpH_C12_bishop", Params: map[string]int64{"sq": int64(sq)}},
				run.Instance{Pkg: "attacks", Func: "VpH_C12_between", Params: map[string]int64{"a": int64(sq)}})
		}
		s.Instances = append(s.Instances,
			run.Instance{Pkg: "attacks", Func: "VpH_C12_leapers"},
			run.Instance{Pkg: "attacks", Func: "VpH_C12_pawns", Params: map[string]int64{"color": 0}},
			run.Instance{Pkg: "attacks", Func: "VpH_C12_pawns", Params: map[string]int64{"color": 1}})
		return s
	}
}
