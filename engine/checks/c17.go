package checks

import (
	"math/rand"

	"vp/run"
)

func init() {
	Reg["C17"] = func(tier string, seed int64) *Spec {
		s := &Spec{
			Prop:          "C17",
			Pkgs:          []string{"board", "eval", "attacks"},
			SliderSummary: true,
			Bounds: []string{
				"ARBITRARY valid placement (62 symbolic cells, no material bound, promoted material included), halfmove clock 0..127, case split on (side to move, white king square, black king square): quick 3 pairs x 2 sides, thorough 24 pairs x 2 sides (of 3612 possible pairs)",
				"symmetry is decided compositionally: (1) Eval == tapered sum of its term functions (glue, on the real Eval), (2) every term group is colour-symmetric (five groups, each a solver query over the repository's term functions), (3) the final combination (sigmoid, tapering, mover's view) is a symmetric function of ARBITRARY 16-bit term totals, (4) the special endings are symmetric on the real Eval. The whole-Eval miter Eval(b) == Eval(mirror b) in one query did not close within 10 minutes and is not claimed",
			},
			Stubs: []string{"attacks.RookMoves/BishopMoves -> ray-walk specification per square, licensed by re-proving the C12 lemma on this run", "evaluation coefficients, sigmoid and phase tables from the real init/var values (native dump)"},
		}
		n := 3
		if tier == "thorough" {
			n = 24
		}
		rng := rand.New(rand.NewSource(seed + 17))
		fixed := [][2]int64{{4, 60}, {6, 62}, {0, 63}}
		var pairs [][2]int64
		pairs = append(pairs, fixed...)
		for len(pairs) < n {
			wk, bk := int64(rng.Intn(64)), int64(rng.Intn(64))
			dx, dy := wk&7-bk&7, wk>>3-bk>>3
			if dx*dx <= 1 && dy*dy <= 1 {
				continue // adjacent or equal
			}
			pairs = append(pairs, [2]int64{wk, bk})
		}
		for _, p := range pairs {
			for stm := int64(0); stm < 2; stm++ {
				base := map[string]int64{"stm": stm, "wk": p[0], "bk": p[1]}
				with := func(k string, v int64) map[string]int64 {
					m := map[string]int64{}
					for a, b := range base {
						m[a] = b
					}
					if k != "" {
						m[k] = v
					}
					return m
				}
				s.Instances = append(s.Instances,
					run.Instance{Pkg: "eval", Func: "VpH_C17_glue", Params: with("", 0), Opt: run.Options{TimeoutMs: 300000}},
					run.Instance{Pkg: "eval", Func: "VpH_C17_special", Params: with("", 0), Opt: run.Options{TimeoutMs: 300000}})
				for part := int64(0); part <= 4; part++ {
					s.Instances = append(s.Instances, run.Instance{Pkg: "eval", Func: "VpH_C17_terms", Params: with("part", part), Opt: run.Options{TimeoutMs: 300000}})
				}
			}
		}
		for stm := int64(0); stm < 2; stm++ {
			s.Instances = append(s.Instances, run.Instance{Pkg: "eval", Func: "VpH_C17_combine", Params: map[string]int64{"stm": stm}})
		}
		return s
	}
}
