package checks

import (
	"math/rand"

	"vp/run"
)

func init() {
	Reg["C17"] = func(tier string, seed int64) *Spec {
		s := &Spec{
			Prop:          "C17",
			Pkgs:          []string{"board", "eval", "attacks"},
			SliderSummary: true,
			Bounds: []string{
				"ARBITRARY valid placement (62 symbolic cells, no material bound, promoted material included), halfmove clock 0..127, case split on (side to move, white king square, black king square): quick 3 pairs (e1/e8, g1/g8, a1/h8) x 2 sides, thorough 24 pairs x 2 sides (of 3612 possible pairs)",
				"special endings (insufficient material, knight+bishop against the bare king): on every position of the minor-piece class the REAL Eval computes exactly the special path (closed term-for-term after deciding Eval's material tests by the class assumption), the material classes are mirror-invariant and the special path scores a position and its mirror image equally from the mover's view",
				"PARTIAL: symmetry is decided per term group, not for Eval as a whole: (1) the placement-based terms (material, tempo, bishop pair, passers, doubled/isolated pawns, piece-square, mobility, outposts, connected rooks) and three of the four king-attack groups (attacking pieces, bishop/knight safe checks, shelter) are colour-symmetric when computed by the repository's own term functions in Eval's order on a position and on its mirror image; (2) the final combination (sigmoid, tapering by phase and halfmove clock, mover's view, endgame score) is a symmetric function of ARBITRARY 16-bit term totals. NOT closed within 10-15 minutes per query and therefore not claimed: the queen/rook safe-check group, the identity Eval == tapered sum of these terms, and the whole-Eval miter Eval(b) == Eval(mirror b)",
			},
			Outside: []string{"the whole-Eval miter on general material; king pairs not in the case split"},
			Assumptions: []string{"special endings: positions are kings on the case's squares plus up to three minor pieces, each present or absent, knight or bishop, either colour, any free square (this class contains every position on which Eval takes the insufficient-material or the KNB-v-K path)", "run-time panics inside Eval (table index ranges driven by popcounts) are not part of this check: paths are not restricted by a no-panic assumption either"},
			Stubs: []string{"attacks.RookMoves/BishopMoves -> ray-walk specification per square, licensed by re-proving the C12 lemma on this run", "evaluation coefficients, sigmoid and phase tables from the real init/var values (native dump)"},
		}
		n := 1
		if tier == "thorough" {
			n = 24
		}
		rng := rand.New(rand.NewSource(seed + 17))
		fixed := [][2]int64{{4, 60}, {6, 62}, {0, 63}}
		var pairs [][2]int64
		pairs = append(pairs, fixed...)
		for len(pairs) < n {
			wk, bk := int64(rng.Intn(64)), int64(rng.Intn(64))
			dx, dy := wk&7-bk&7, wk>>3-bk>>3
			if dx*dx <= 1 && dy*dy <= 1 {
				continue // adjacent or equal
			}
			pairs = append(pairs, [2]int64{wk, bk})
		}
		for _, p := range pairs {
			for stm := int64(0); stm < 2; stm++ {
				base := map[string]int64{"stm": stm, "wk": p[0], "bk": p[1]}
				with := func(k string, v int64) map[string]int64 {
					m := map[string]int64{}
					for a, b := range base {
						m[a] = b
					}
					if k != "" {
						m[k] = v
					}
					return m
				}
				s.Instances = append(s.Instances, run.Instance{Pkg: "eval", Func: "VpH_C17_indep", Params: with("", 0), Opt: run.Options{TimeoutMs: 300000, PanicMode: "ignore"}})
				s.Instances = append(s.Instances, run.Instance{Pkg: "eval", Func: "VpH_C17_special", Params: with("", 0), Opt: run.Options{TimeoutMs: 300000}})
				for cl := int64(0); cl < 2; cl++ {
					s.Instances = append(s.Instances, run.Instance{Pkg: "eval", Func: "VpH_C17_path", Params: with("class", cl), Opt: run.Options{TimeoutMs: 300000}})
				}
				for _, part := range []int64{0, 1, 3, 4} {
					s.Instances = append(s.Instances, run.Instance{Pkg: "eval", Func: "VpH_C17_terms", Params: with("part", part), Opt: run.Options{TimeoutMs: 300000, PanicMode: "ignore"}})
				}
			}
		}
		for stm := int64(0); stm < 2; stm++ {
			s.Instances = append(s.Instances, run.Instance{Pkg: "eval", Func: "VpH_C17_combine", Params: map[string]int64{"stm": stm}})
		}
		return s
	}
}
