package checks

import (
	"math/rand"

	"vp/run"
)

type mv struct{ from, to, promo int }

// geomMoves lists every (from,to) pair on a queen line or knight jump, plus the promotion variants.
func geomMoves(stm int) []mv {
	var out []mv
	for from := 0; from < 64; from++ {
		for to := 0; to < 64; to++ {
			if from == to {
				continue
			}
			df, dr := to&7-from&7, to>>3-from>>3
			adf, adr := df, dr
			if adf < 0 {
				adf = -adf
			}
			if adr < 0 {
				adr = -adr
			}
			line := df == 0 || dr == 0 || adf == adr
			knight := (adf == 1 && adr == 2) || (adf == 2 && adr == 1)
			if !line && !knight {
				continue
			}
			out = append(out, mv{from, to, 0})
			// pawn geometry onto the last rank
			last, prev := 7, 6
			if stm == 1 {
				last, prev = 0, 1
			}
			if to>>3 == last && from>>3 == prev && adf <= 1 {
				for p := 2; p <= 5; p++ {
					out = append(out, mv{from, to, p})
				}
			}
		}
	}
	return out
}

// category classifies a geometric move by the special rule it can exercise (0 = none).
func category(m mv, stm int) int {
	home := 0
	if stm == 1 {
		home = 56
	}
	d := m.to - m.from
	switch {
	case m.to == 0 && m.promo != 0:
		return 7 // promotion onto a1: square 0 doubles as the "no en-passant target" sentinel
	case m.from == home+4 && (m.to == home+6 || m.to == home+2):
		return 1 // castling geometry
	case m.promo != 0:
		return 2 // promotions
	case (d == 16 && m.from>>3 == 1 && stm == 0) || (d == -16 && m.from>>3 == 6 && stm == 1):
		return 3 // double push
	case (stm == 0 && m.from>>3 == 4 && (d == 7 || d == 9)) || (stm == 1 && m.from>>3 == 3 && (d == -7 || d == -9)):
		return 4 // en-passant capture geometry
	case m.from == 0 || m.from == 7 || m.from == 56 || m.from == 63 || m.to == 0 || m.to == 7 || m.to == 56 || m.to == 63:
		return 5 // touches a rook home square
	case m.from == 4 || m.from == 60:
		return 6 // king home square
	}
	return 0
}

// stepInstances builds the case split for the one-step harnesses. thorough: every geometric move. quick: all
// castling and double-push cases, and a seeded sample of each other category.
func stepInstances(fn string, tier string, seed int64, hist int64, scale int, extra map[string]int64) []run.Instance {
	return stepInstancesDiv(fn, tier, seed, hist, scale, 1, extra)
}

// stepInstancesDiv divides the quick-tier sampling rates (except castling and a1-promotions) by div.
func stepInstancesDiv(fn string, tier string, seed int64, hist int64, scale, div int, extra map[string]int64) []run.Instance {
	var out []run.Instance
	rng := rand.New(rand.NewSource(seed + 12345))
	// sampling rate per category in percent (base); quick: base*scale/div, thorough: base*8
	rate := map[int]int{0: 1, 1: 100, 2: 12, 3: 100, 4: 25, 5: 3, 6: 10, 7: 100}
	for stm := 0; stm < 2; stm++ {
		for _, m := range geomMoves(stm) {
			cat := category(m, stm)
			r := rate[cat] * 10
			if cat != 1 && cat != 7 && cat != 3 {
				if tier == "thorough" {
					r *= 8 // thorough: eight times the base sampling rates (every special category completely)
				} else {
					r = r * scale / div
				}
			}
			if tier != "exhaustive" && rng.Intn(1000) >= r {
				continue
			}
			p := map[string]int64{"stm": int64(stm), "from": int64(m.from), "to": int64(m.to), "promo": int64(m.promo), "hist": hist}
			for k, v := range extra {
				p[k] = v
			}
			out = append(out, run.Instance{Pkg: "board", Func: fn, Params: p})
		}
	}
	return out
}

func init() {
	Reg["C03"] = func(tier string, seed int64) *Spec {
		s := &Spec{
			Prop: "C03",
			Pkgs: []string{"board", "attacks"},
			SliderSummary: true,
			Bounds: []string{
				"one make+undo step from an ARBITRARY valid position (all 64 cells, castling, e.p., clocks symbolic) for a concrete (side, from, to, promotion) case; nesting to any depth follows by induction because the restored state is identical",
				"hash history: 2 arbitrary earlier entries in the case split; additionally histories of 0, 126, 127 and 128 earlier entries (around the slice capacity 128) for three moves; longer histories follow from the same step since undo pops exactly what make pushed",
				"quick tier: every castling and double-push case and a seeded (VERIF_SEED) sample of the other categories (promotions 24%, en-passant geometry 50%, rook-home squares 6%, king-home squares 20%, ordinary (from,to) pairs 2%); thorough: all castling, double-push, promotion and en-passant cases, 24% of the rook-home, 80% of the king-home and 8% of the ordinary ones; tier `exhaustive` runs all 3760 (side, from, to, promotion) cases (hours)",
			},
			Assumptions: []string{"validity predicate of the property (VpValid) and pseudo-legality by the mailbox FIDE specification (VpPseudoLegal)"},
		}
		s.Instances = stepInstances("VpH_C03_undo", tier, seed, 2, 2, nil)
		for stm := int64(0); stm < 2; stm++ {
			s.Instances = append(s.Instances, run.Instance{Pkg: "board", Func: "VpH_C03_null", Params: map[string]int64{"stm": stm, "hist": 2}})
		}
		// long histories around the capacity the history slice is created with (128)
		for _, h := range []int64{0, 126, 127, 128} {
			s.Instances = append(s.Instances,
				run.Instance{Pkg: "board", Func: "VpH_C03_undo", Params: map[string]int64{"stm": 0, "from": 6, "to": 21, "promo": 0, "hist": h}},
				run.Instance{Pkg: "board", Func: "VpH_C03_undo", Params: map[string]int64{"stm": 1, "from": 52, "to": 36, "promo": 0, "hist": h}},
				run.Instance{Pkg: "board", Func: "VpH_C03_null", Params: map[string]int64{"stm": 1, "hist": h}})
		}
		return s
	}
}

// doublePushInstances: fn for every double pawn push (8 files x 2 sides).
func doublePushInstances(fn string) []run.Instance {
	var out []run.Instance
	for f := int64(0); f < 8; f++ {
		out = append(out,
			run.Instance{Pkg: "board", Func: fn, Params: map[string]int64{"stm": 0, "from": 8 + f, "to": 24 + f, "promo": 0, "hist": 2}},
			run.Instance{Pkg: "board", Func: fn, Params: map[string]int64{"stm": 1, "from": 48 + f, "to": 32 + f, "promo": 0, "hist": 2}})
	}
	return out
}

// castlesInstances: the symbolic-move castling-rights obligation (no case split).
func castlesInstances() []run.Instance {
	var out []run.Instance
	for stm := int64(0); stm < 2; stm++ {
		out = append(out, run.Instance{Pkg: "board", Func: "VpH_C02_castles", Params: map[string]int64{"stm": stm}})
	}
	return out
}

func stepSpec(prop string) *Spec {
	return &Spec{
		Prop:          prop,
		Pkgs:          []string{"board", "attacks"},
		SliderSummary: true,
		Stubs:         []string{"attacks.RookMoves/BishopMoves -> ray-walk specification, per square, only where the C12 lemma (forall occ: lookup == ray walk) was re-proved on this run"},
		Assumptions:   []string{"validity predicate of the property's quantifier (VpValid in harness/board/spec.go), legality/pseudo-legality by the mailbox FIDE specification (VpPseudoLegal, VpLegal)"},
	}
}

func init() {
	Reg["C02"] = func(tier string, seed int64) *Spec {
		s := stepSpec("C02")
		s.Bounds = []string{
			"one MakeMove step from an ARBITRARY valid position (64 symbolic cells, castling, e.p., clocks, 2 earlier history entries) for a concrete (side, from, to, promotion) case; game histories of any length follow by induction because the successor is asserted valid again",
			"quick: all castling and all double-push cases, seeded sample of the other categories (promotions 12%, en-passant geometry 25%, rook-home 3%, king-home 10%, ordinary 1%); thorough: eight times these rates; tier `exhaustive`: all 3760 cases",
			"halfmove clock 0..127, fullmove number 1..2^31-1",
		}
		s.Exclusions = []string{"fifty-clock-wrap"}
		s.Instances = stepInstancesDiv("VpH_C02_step", tier, seed, 2, 1, 1, nil)
		s.Witnesses = map[string]run.Instance{
			"fifty-clock-wrap": {Pkg: "board", Func: "VpH_C02_step", Params: map[string]int64{"stm": 0, "from": 6, "to": 21, "promo": 0, "hist": 2}},
		}
		s.Instances = append(s.Instances, castlesInstances()...)
		s.Bounds = append(s.Bounds, "castling-rights update additionally for EVERY (from, to, promotion bits) at once (symbolic move), both sides")
		s.Pkgs = append(s.Pkgs, "uci")
		for stm := int64(0); stm < 2; stm++ {
			for _, n := range []int64{3, 4, 5, 6} {
				s.Instances = append(s.Instances, run.Instance{Pkg: "uci", Func: "VpH_C02_ucimove", Params: map[string]int64{"stm": stm, "len": n}, Opt: run.Options{TimeoutMs: 300000}})
			}
		}
		s.Bounds = append(s.Bounds, "UCI move strings: every string of 3, 4, 5 and 6 bytes (all bytes symbolic) against an arbitrary valid position: accepted only through the pseudo-legality gate, well-formed strings accepted iff the spelled move passes the gate and returned as spelled, other lengths rejected; applyMoves is then the iteration of the MakeMove step")
		s.Outside = []string{"string splitting in handlePosition; malformed strings whose characters alias into the board by byte wrap-around (e.g. file letter 'i') are only required to pass the pseudo-legality gate, not to be rejected"}
		return s
	}
	Reg["C04"] = func(tier string, seed int64) *Spec {
		s := stepSpec("C04")
		s.Bounds = []string{
			"one MakeMove / MakeNullMove step from an ARBITRARY valid position whose current hash equals the from-scratch hash; any interleaving of moves and null moves follows by induction",
			"quick: all castling and double-push cases, seeded sample of the rest (promotions 24%, en-passant geometry 50%, rook-home 6%, king-home 20%, ordinary 2%); thorough: all special categories, 8% of the ordinary cases; tier `exhaustive`: all 3760 cases",
		}
		s.Assumptions = append(s.Assumptions, "64-bit Zobrist keys are taken from the real init code (native dump); hash equality is exact term equality, no collision assumption is needed for this property")
		s.Instances = stepInstances("VpH_C04_hash", tier, seed, 2, 2, nil)
		for stm := int64(0); stm < 2; stm++ {
			s.Instances = append(s.Instances,
				run.Instance{Pkg: "board", Func: "VpH_C04_null", Params: map[string]int64{"stm": stm, "hist": 2}},
				run.Instance{Pkg: "board", Func: "VpH_C04_function", Params: map[string]int64{"stm": stm}})
		}
		return s
	}
}
