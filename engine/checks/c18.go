package checks

import "vp/run"

func init() {
	Reg["C18"] = func(tier string, seed int64) *Spec {
		s := stepSpec("C18")
		s.Pkgs = []string{"board", "heur", "attacks", "movegen"}
		s.Native = []NativeRun{{"heur", "VpV_SEE"}}
		s.Bounds = []string{
			"ARBITRARY valid position, concrete legal (side, from, to, promotion) case (seeded sample in quick, four times the sampling rates in thorough, all 3760 in tier `exhaustive`), thresholds -3000..3000 symbolic",
			"exchanges of at most 2 captures after the initial move in both tiers (specification bound, assumed; with 3 captures several monotonicity obligations stay unknown after 300 s, 4 captures do not close at all); the implementation's exchange loop is unrolled bound+2 times with an unwinding assumption; the native comparison on the corpus uses 8 captures",
		}
		s.Assumptions = append(s.Assumptions,
			"equally valued least attackers are chosen as the implementation does (knight before bishop, lowest square first); the property allows any choice, so a different valid tie-break would be reported and has to be triaged",
			"the exchange specification (harness/heur/c18.go) is compared natively with SEE on every legal move of the repo's test positions on each run")
		div := 4
		maxcap := int64(2) // 3 recaptures: the monotonicity obligation of several pawn-move cases is unknown after 300 s
		// thorough: four times the quick sampling rates (with 3 recaptures the 8x sample ran past 100 minutes, 4x past 55,
		// and at 2x seven monotonicity obligations stayed unknown after 300 s)
		if tier == "thorough" {
			s.Instances = stepInstancesDiv("VpH_C18", "quick", seed, 0, 4, div, map[string]int64{"maxcap": maxcap})
		} else {
			s.Instances = stepInstancesDiv("VpH_C18", tier, seed, 0, 1, div, map[string]int64{"maxcap": maxcap})
		}
		for i := range s.Instances {
			s.Instances[i].Pkg = "heur"
			s.Instances[i].Opt.LoopBound = int(maxcap) + 2
			s.Instances[i].Opt.TimeoutMs = 300000
		}
		// counterexample search beyond the claimed bound: exchanges of up to 4 captures, short time budget; a
		// counterexample is replayed natively and reported, no answer is not a claim
		var hunt []run.Instance
		cases := [][2]int64{{3, 35}, {6, 21}, {28, 35}, {0, 56}, {2, 38}, {4, 12}} // Qd1xd5, Ng1xf3, e4xd5, Ra1xa8, Bc1xg5, Ke1xe2 geometry
		for _, cs := range cases {
			hunt = append(hunt,
				run.Instance{Func: "VpH_C18", Params: map[string]int64{"stm": 0, "from": cs[0], "to": cs[1], "promo": 0, "hist": 0, "maxcap": 4}},
				run.Instance{Func: "VpH_C18", Params: map[string]int64{"stm": 1, "from": cs[0] ^ 56, "to": cs[1] ^ 56, "promo": 0, "hist": 0, "maxcap": 4}})
		}
		for i := range hunt {
			hunt[i].Pkg = "heur"
			hunt[i].Opt.LoopBound = 6
			hunt[i].Opt.TimeoutMs = 90000
			hunt[i].Opt.Hunt = true
			hunt[i].Opt.NoVacuity = true
		}
		s.Instances = append(s.Instances, hunt...)
		// deep exchanges on sparse classes of positions (claimed): kings fixed, only the listed squares may hold other
		// pieces (arbitrary piece and colour each). Added after seeded change C18-m3 (third knight of a colour skipped),
		// which needs 5 captures after the initial move.
		mask := func(sqs ...int) (m, mirrored int64) {
			for _, q := range sqs {
				m |= 1 << uint(q)
				mirrored |= 1 << uint(q^56)
			}
			return
		}
		type sparse struct {
			from, to, wk, bk int64
			m, mm            int64
		}
		var sp []sparse
		m1, mm1 := mask(17, 33, 10, 42, 12, 44, 21, 37, 3, 9, 59, 54, 18, 20, 34, 36, 27) // knight squares of d4, d1 b2 d8 g7, pawn squares c3 e3 c5 e5, d4
		sp = append(sp, sparse{21, 27, 6, 62, m1, mm1})                                   // Nf3xd4
		m2, mm2 := mask(4, 12, 52, 60, 18, 9, 54, 63, 27, 29, 43, 45, 21, 51, 36) // e-file battery, long diagonal, pawn and knight squares around e5
		sp = append(sp, sparse{12, 36, 6, 57, m2, mm2})                           // Re2xe5
		for _, c := range sp {
			for stm := int64(0); stm < 2; stm++ {
				p := map[string]int64{"stm": stm, "from": c.from, "to": c.to, "promo": 0, "hist": 0, "wk": c.wk, "bk": c.bk, "mask": c.m, "maxcap": 6}
				if stm == 1 {
					p["from"], p["to"], p["wk"], p["bk"], p["mask"] = c.from^56, c.to^56, c.bk^56, c.wk^56, c.mm
				}
				s.Instances = append(s.Instances, run.Instance{Pkg: "heur", Func: "VpH_C18_sparse", Params: p,
					Opt: run.Options{LoopBound: 8, TimeoutMs: 300000}})
			}
		}
		s.Bounds = append(s.Bounds, "deep exchanges (claimed): up to 6 captures after the initial move on two sparse classes of positions per side - kings fixed, 17 resp. 15 squares around the target (all knight squares, pawn squares, slider batteries) arbitrary, every other square empty; knight capture f3xd4 and rook capture e2xe5 (mirrored for Black)")
		s.Bounds = append(s.Bounds, "counterexample search only (not claimed): the same obligation with exchanges of up to 4 captures on 12 fixed capture geometries, 90 s per query; a counterexample is replayed on the real SEE before it is reported, no answer within the budget is reported as such")
		return s
	}
}
