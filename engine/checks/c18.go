package checks

import "vp/run"

func init() {
	Reg["C18"] = func(tier string, seed int64) *Spec {
		s := stepSpec("C18")
		s.Pkgs = []string{"board", "heur", "attacks", "movegen"}
		s.Native = []NativeRun{{"heur", "VpV_SEE"}}
		s.Bounds = []string{
			"ARBITRARY valid position, concrete legal (side, from, to, promotion) case (seeded sample in quick, four times the sampling rates in thorough, all 3760 in tier `exhaustive`), thresholds -3000..3000 symbolic",
			"exchanges of at most 2 captures after the initial move in both tiers (specification bound, assumed; with 3 captures several monotonicity obligations stay unknown after 300 s, 4 captures do not close at all); the implementation's exchange loop is unrolled bound+2 times with an unwinding assumption; the native comparison on the corpus uses 8 captures",
		}
		s.Assumptions = append(s.Assumptions,
			"equally valued least attackers are chosen as the implementation does (knight before bishop, lowest square first); the property allows any choice, so a different valid tie-break would be reported and has to be triaged",
			"the exchange specification (harness/heur/c18.go) is compared natively with SEE on every legal move of the repo's test positions on each run")
		div := 4
		maxcap := int64(2) // 3 recaptures: the monotonicity obligation of several pawn-move cases is unknown after 300 s
		// thorough: four times the quick sampling rates (with 3 recaptures the 8x sample ran past 100 minutes, 4x past 55,
		// and at 2x seven monotonicity obligations stayed unknown after 300 s)
		if tier == "thorough" {
			s.Instances = stepInstancesDiv("VpH_C18", "quick", seed, 0, 4, div, map[string]int64{"maxcap": maxcap})
		} else {
			s.Instances = stepInstancesDiv("VpH_C18", tier, seed, 0, 1, div, map[string]int64{"maxcap": maxcap})
		}
		for i := range s.Instances {
			s.Instances[i].Pkg = "heur"
			s.Instances[i].Opt.LoopBound = int(maxcap) + 2
			s.Instances[i].Opt.TimeoutMs = 300000
		}
		// counterexample search beyond the claimed bound: exchanges of up to 4 captures, short time budget; a
		// counterexample is replayed natively and reported, no answer is not a claim
		var hunt []run.Instance
		cases := [][2]int64{{3, 35}, {6, 21}, {28, 35}, {0, 56}, {2, 38}, {4, 12}} // Qd1xd5, Ng1xf3, e4xd5, Ra1xa8, Bc1xg5, Ke1xe2 geometry
		for _, cs := range cases {
			hunt = append(hunt,
				run.Instance{Func: "VpH_C18", Params: map[string]int64{"stm": 0, "from": cs[0], "to": cs[1], "promo": 0, "hist": 0, "maxcap": 4}},
				run.Instance{Func: "VpH_C18", Params: map[string]int64{"stm": 1, "from": cs[0] ^ 56, "to": cs[1] ^ 56, "promo": 0, "hist": 0, "maxcap": 4}})
		}
		for i := range hunt {
			hunt[i].Pkg = "heur"
			hunt[i].Opt.LoopBound = 6
			hunt[i].Opt.TimeoutMs = 90000
			hunt[i].Opt.Hunt = true
			hunt[i].Opt.NoVacuity = true
		}
		s.Instances = append(s.Instances, hunt...)
		s.Bounds = append(s.Bounds, "counterexample search only (not claimed): the same obligation with exchanges of up to 4 captures on 12 fixed capture geometries, 90 s per query; a counterexample is replayed on the real SEE before it is reported, no answer within the budget is reported as such")
		return s
	}
}
