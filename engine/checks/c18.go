package checks

func init() {
	Reg["C18"] = func(tier string, seed int64) *Spec {
		s := stepSpec("C18")
		s.Pkgs = []string{"board", "heur", "attacks", "movegen"}
		s.Native = []NativeRun{{"heur", "VpV_SEE"}}
		s.Bounds = []string{
			"ARBITRARY valid position, concrete legal (side, from, to, promotion) case (seeded sample in quick, eight times as many in thorough, all 3760 in tier `exhaustive`), thresholds -3000..3000 symbolic",
			"exchanges of at most 2 (quick) / 3 (thorough) captures after the initial move (specification bound, assumed; longer exchanges did not close within 60 s per query); the implementation's exchange loop is unrolled bound+2 times with an unwinding assumption; the native comparison on the corpus uses 8 captures",
		}
		s.Assumptions = append(s.Assumptions,
			"equally valued least attackers are chosen as the implementation does (knight before bishop, lowest square first); the property allows any choice, so a different valid tie-break would be reported and has to be triaged",
			"the exchange specification (harness/heur/c18.go) is compared natively with SEE on every legal move of the repo's test positions on each run")
		div := 4
		maxcap := int64(2)
		if tier == "thorough" {
			maxcap = 3
		}
		s.Instances = stepInstancesDiv("VpH_C18", tier, seed, 0, 1, div, map[string]int64{"maxcap": maxcap})
		for i := range s.Instances {
			s.Instances[i].Pkg = "heur"
			s.Instances[i].Opt.LoopBound = int(maxcap) + 2
			s.Instances[i].Opt.TimeoutMs = 300000
		}
		return s
	}
}
