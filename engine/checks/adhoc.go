package checks

import (
	"fmt"
	"os"
	"path/filepath"
	"sort"
	"strconv"

	vexec "vp/exec"
	"vp/run"
	"vp/sym"
)

// ExecOne runs a single harness instance (debugging aid).
func ExecOne(pkg, fn string, params map[string]int64, repoDir, verifDir string) int {
	w, err := run.Load(repoDir, filepath.Join(verifDir, "harness"), []string{pkg}, "")
	if err != nil {
		fmt.Println("LOAD FAILED:", err)
		return 2
	}
	defer w.Close()
	if err := w.DumpGlobals(); err != nil {
		fmt.Println(err)
		return 2
	}
	tmo := 60000
	if v, err := strconv.Atoi(os.Getenv("VP_TIMEOUT_MS")); err == nil && v > 0 {
		tmo = v
	}
	pl := sym.NewPool([]string{"z3-new", "z3"}, tmo)
	defer pl.Close()
	inst := run.Instance{Prop: "ADHOC", Pkg: pkg, Func: fn, Params: params}
	inst.Opt.Sweep = os.Getenv("VP_SWEEP") != ""
	inst.Opt.TimeoutMs = tmo
	if os.Getenv("VP_PANICS") == "ignore" {
		inst.Opt.PanicMode = "ignore"
	}
	if rook := w.Func("attacks", "RookMoves"); rook != nil && os.Getenv("VP_NOSUMMARY") == "" {
		bishop := w.Func("attacks", "BishopMoves")
		inst.Opt.Setup = func(x *vexec.Exec, w *run.World) {
			x.InstallSliderSummary(rook, bishop, func(string, int) bool { return true })
		}
	}
	if os.Getenv("VP_TEXTMODEL") != "" {
		prev := inst.Opt.Setup
		inst.Opt.Setup = func(x *vexec.Exec, w *run.World) {
			if prev != nil {
				prev(x, w)
			}
			x.InstallTextModel()
		}
		inst.Opt.LoopBound = 70
	}
	if pkg == "movegen" {
		prev := inst.Opt.Setup
		inst.Opt.Setup = func(x *vexec.Exec, w *run.World) {
			if prev != nil {
				prev(x, w)
			}
			genObserver(x, w)
		}
	}
	if pkg == "picker" {
		prev := inst.Opt.Setup
		inst.Opt.Setup = func(x *vexec.Exec, w *run.World) {
			if prev != nil {
				prev(x, w)
			}
			pickerRankStubs(x, w)
		}
		inst.Opt.LoopBound = 16
	}
	r := w.RunInstance(inst, pl)
	printInst(r)
	for _, o := range r.Obs {
		fmt.Printf("   %-8s %-50s %-8s %8.0fms %s\n", o.Kind, o.Label, o.Verdict, o.Ms, o.Detail)
	}
	type kv struct {
		k string
		v int
	}
	var tb []kv
	for k, v := range r.TermsBy {
		tb = append(tb, kv{k, v})
	}
	sort.Slice(tb, func(i, j int) bool { return tb[i].v > tb[j].v })
	for i, e := range tb {
		if i < 25 {
			fmt.Printf("   terms(incl) %8d %s\n", e.v, e.k)
		}
	}
	fmt.Println("   sweep:", r.SweepNote)
	for _, u := range r.Unwinds {
		fmt.Println("   unwound:", u)
	}
	return 0
}
