package checks

import (
	vexec "vp/exec"
	"vp/run"
	"vp/sym"
)

func init() {
	Reg["C07"] = func(tier string, seed int64) *Spec {
		s := &Spec{
			Prop: "C07",
			Pkgs: []string{"search"},
			Bounds: []string{
				"PV buffer algebra only: for each ply 0..63 (64 instances), ARBITRARY child line length and moves, arbitrary neighbouring content: rows disjoint and in bounds, insert copies exactly the child's line behind the move, setNull empties the row",
			},
			Outside: []string{
				"legality of the moves stored in the buffer (follows from C01/C06: a move is inserted only after it was made and found legal) and the adoption logic of iterativeDeepen are not encoded by this check",
			},
		}
		for ply := int64(0); ply < 64; ply++ {
			s.Instances = append(s.Instances, run.Instance{Pkg: "search", Func: "VpH_C07_pv", Params: map[string]int64{"ply": ply}})
		}
		return s
	}
	Reg["C08"] = func(tier string, seed int64) *Spec {
		s := &Spec{
			Prop: "C08",
			Pkgs: []string{"search"},
			Bounds: []string{
				"node budget: one incrementNodes/abort step from ANY counter value within ANY non-negative 64-bit budget (inductive: the counter starts at 0 <= budget), and with no budget",
			},
			Outside: []string{
				"equality of whole search trees across engine instances and the abort-before-store discipline of alphaBeta are not encoded by this check",
			},
		}
		s.Instances = append(s.Instances, run.Instance{Pkg: "search", Func: "VpH_C08_budget"})
		return s
	}
	Reg["C06"] = func(tier string, seed int64) *Spec {
		s := &Spec{
			Prop: "C06",
			Pkgs: []string{"search", "uci"},
			Bounds: []string{
				"UCI `go depth N`: every 64-bit N >= 1 (strconv parsing replaced by 'any integer'); recording mock search",
				"engine reuse: refresh from an arbitrary abort flag, 0..3 open move-store frames and 0..3 history-stack entries",
			},
			Stubs: []string{
				"uci.parseInt/parseInt64 and uci.vpNumArg -> the symbolic integer named by the harness; sync.WaitGroup.Go/Wait, channel creation/close -> no-ops (the interrupt goroutine body is not executed: C13 not applicable); fmt.Fprintf -> no effect",
			},
			Outside: []string{
				"the search proper (legality of the returned move at every abort point, board restoration along alphaBeta/quiescence) is not encoded by this check",
			},
		}
		stub := func(x *vexec.Exec, w *run.World) {
			val := func(x *vexec.Exec, a []vexec.Val) *sym.Term {
				sv := a[0].(*vexec.StringV)
				if sv.IsSym || len(sv.Const) < 5 || sv.Const[:4] != "arg:" {
					return x.C.Const(64, 0)
				}
				return x.C.Var(64, sv.Const[4:])
			}
			x.Stub(run.ModPath+"/uci.vpNumArg", func(x *vexec.Exec, a []vexec.Val, g *sym.Term) vexec.Val {
				return &vexec.StringV{Const: "arg:" + a[0].(*vexec.StringV).Const}
			})
			x.Stub(run.ModPath+"/uci.parseInt", func(x *vexec.Exec, a []vexec.Val, g *sym.Term) vexec.Val { return val(x, a) })
			x.Stub(run.ModPath+"/uci.parseInt64", func(x *vexec.Exec, a []vexec.Val, g *sym.Term) vexec.Val { return val(x, a) })
			x.Stub("(*sync.WaitGroup).Go", func(x *vexec.Exec, a []vexec.Val, g *sym.Term) vexec.Val { return nil })
			x.Stub("(*sync.WaitGroup).Wait", func(x *vexec.Exec, a []vexec.Val, g *sym.Term) vexec.Val { return nil })
		}
		s.Instances = append(s.Instances,
			run.Instance{Pkg: "uci", Func: "VpH_C06_godepth", Opt: run.Options{Setup: stub}},
			run.Instance{Pkg: "search", Func: "VpH_C06_refresh"})
		return s
	}
}
