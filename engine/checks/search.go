package checks

import (
	vexec "vp/exec"
	"vp/run"
	"vp/sym"
)

func init() {
	Reg["C07"] = func(tier string, seed int64) *Spec {
		s := &Spec{
			Prop: "C07",
			Pkgs: []string{"search"},
			Bounds: []string{
				"PV buffer algebra only: for each ply 0..63 (64 instances), ARBITRARY child line length and moves, arbitrary neighbouring content: rows disjoint and in bounds, insert copies exactly the child's line behind the move, setNull empties the row",
			},
			Outside: []string{
				"legality of the moves stored in the buffer (a move is inserted only after it was made and found legal: C01/C06) and the adoption logic of iterativeDeepen (which line is printed and which move returned) are not encoded by the registered check",
			},
		}
		for ply := int64(0); ply < 64; ply++ {
			s.Instances = append(s.Instances, run.Instance{Pkg: "search", Func: "VpH_C07_pv", Params: map[string]int64{"ply": ply}})
		}
		k := 3
		if tier == "thorough" {
			k = 4
		}
		mkSetup := func() func(x *vexec.Exec, w *run.World) {
			return wrapTimeStubs(func(x *vexec.Exec, w *run.World) {
				bT := w.Pkgs[run.ModPath+"/board"].Type("Board").Type()
				sT := w.Pkgs[run.ModPath+"/search"].Type("Search").Type()
				a := &absSearch{w: w, boardT: bT, searchT: sT, posIx: fieldIx(bT, "fullMoves"), stmIx: fieldIx(bT, "STM"), abortIx: fieldIx(sT, "aborted"), pvIx: fieldIx(sT, "pv"), writePV: true}
				a.install(x, true, false, func(string, *sym.Term, *sym.Term) {})
				a.observePrints(x)
			})
		}
		s.Instances = append(s.Instances, run.Instance{Pkg: "search", Func: "VpH_C07_deepen",
			Opt: run.Options{Abstract: true, Setup: mkSetup(), LoopBound: k, UnwindMode: "assume", PanicMode: "ignore", TimeoutMs: 300000}})
		for _, ply := range []int64{0, 1, 7, 62} {
			setup := func(x *vexec.Exec, w *run.World) {
				bT := w.Pkgs[run.ModPath+"/board"].Type("Board").Type()
				sT := w.Pkgs[run.ModPath+"/search"].Type("Search").Type()
				a := &absSearch{w: w, boardT: bT, searchT: sT, posIx: fieldIx(bT, "fullMoves"), stmIx: fieldIx(bT, "STM"), abortIx: fieldIx(sT, "aborted"), pvIx: fieldIx(sT, "pv")}
				a.install(x, true, true, func(string, *sym.Term, *sym.Term) {})
				a.observeInserts(x)
			}
			s.Instances = append(s.Instances, run.Instance{Pkg: "search", Func: "VpH_C07_alphabeta", Params: map[string]int64{"ply": ply},
				Opt: run.Options{Abstract: true, Setup: setup, LoopBound: 2, UnwindMode: "assume", PanicMode: "ignore", TimeoutMs: 300000}})
		}
		s.Confirm = &ConfirmRun{"search", "VpV_C07_sweep", "VpV_C07_case"}
		s.Bounds = append(s.Bounds,
			"adoption logic: the real iterativeDeepen for up to 3 (quick) / 4 (thorough) iterations and aspiration retries each, alphaBeta replaced by its contract (arbitrary score, arbitrary line of 0..3 non-null moves in row 0, node counter does not decrease, may abort), arbitrary soft limits and clock readings, info lines observed at fmt.Fprintf",
			"PV discipline of one real alphaBeta activation at ply 0, 1, 7, 62 from an arbitrary (stale) own row, under the abstract-position contracts (2 moves per move loop): the row is empty on return unless this activation inserted; inserts go to the own ply with the move just searched",
			"counterexamples against the activation contracts are reported only after the native confirmation sweep (real searches, fresh and warmed tables, low-clock and repetition roots) reproduces a failure of the property's statement; otherwise INCONCLUSIVE")
		return s
	}
	Reg["C08"] = func(tier string, seed int64) *Spec {
		s := &Spec{
			Prop:    "C08",
			Extra:   scanSearchFacts,
			Pkgs:    []string{"search"},
			Confirm: &ConfirmRun{"search", "VpV_C08_sweep", "VpV_C08_case"},
			Bounds: []string{
				"node budget: one incrementNodes/abort step from ANY counter value within ANY non-negative 64-bit budget (inductive: the counter starts at 0 <= budget), and with no budget",
			},
			Outside: []string{
				"equality of whole search trees across engine instances and the abort-before-store discipline of alphaBeta are not encoded by this check",
			},
		}
		s.Instances = append(s.Instances, run.Instance{Pkg: "search", Func: "VpH_C08_budget"})
		s.Instances = append(s.Instances, run.Instance{Pkg: "search", Func: "VpH_C08_deepen",
			Opt: run.Options{Abstract: true, LoopBound: 3, UnwindMode: "assume", PanicMode: "ignore", TimeoutMs: 300000,
				Setup: wrapTimeStubs(func(x *vexec.Exec, w *run.World) {
					bT := w.Pkgs[run.ModPath+"/board"].Type("Board").Type()
					sT := w.Pkgs[run.ModPath+"/search"].Type("Search").Type()
					a := &absSearch{w: w, boardT: bT, searchT: sT, posIx: fieldIx(bT, "fullMoves"), stmIx: fieldIx(bT, "STM"), abortIx: fieldIx(sT, "aborted"), pvIx: fieldIx(sT, "pv"), writePV: true}
					a.install(x, true, false, func(string, *sym.Term, *sym.Term) {})
					a.observePrints(x)
				})}})
		s.Bounds = append(s.Bounds, "soft limits: the real iterativeDeepen (3 iterations and aspiration retries, alphaBeta under contract, arbitrary soft node/time limits, clock and node counts): a search that stops at a soft limit has a best move, so the hard-budget replay of the reached node count takes the same exit; contract-level counterexamples are reported only if the native soft/hard replay sweep reproduces a difference")
		if tier == "diagnostic" {
			// abort-before-store on the activation contracts: NOT part of the registered check. On the unchanged tree
			// quiescence stores a bound after a child was aborted (the beta cut-off is tested before the abort poll), so
			// this obligation has counterexamples that no input violating the property's statement reproduces.
			s.Instances = append(s.Instances, absInstances(tier, true)...)
		}
		return s
	}
	Reg["C06"] = func(tier string, seed int64) *Spec {
		s := &Spec{
			Prop:    "C06",
			Pkgs:    []string{"search", "uci", "board", "attacks"},
			SliderSummary: true,
			Confirm: &ConfirmRun{"search", "VpV_C06_sweep", "VpV_C06_case"},
			Bounds: []string{
				"UCI `go depth N`: every 64-bit N >= 1 (strconv parsing replaced by 'any integer'); recording mock search",
				"engine reuse: refresh from an arbitrary abort flag, 0..3 open move-store frames and 0..3 history-stack entries",
				"contract discharge: real MakeMove+UndoMove / MakeNullMove+UndoNullMove restore every attribute of an arbitrary valid position for 8 concrete (side, from, to, promotion) cases (knight move, double push, both castlings, promotion push, capture-promotion, e.p. geometry, rook from its home square) and the null move of either side; the full case split is C03's",
			},
			Stubs: []string{
				"uci.parseInt/parseInt64 and uci.vpNumArg -> the symbolic integer named by the harness; sync.WaitGroup.Go/Wait, channel creation/close -> no-ops (the interrupt goroutine body is not executed: C13 not applicable); fmt.Fprintf -> no effect",
			},
			Outside: []string{
				"the search proper (legality of the returned move at every abort point, board restoration along alphaBeta/quiescence) is not encoded by this check",
			},
		}
		stub := func(x *vexec.Exec, w *run.World) {
			val := func(x *vexec.Exec, a []vexec.Val) *sym.Term {
				sv := a[0].(*vexec.StringV)
				if sv.IsSym || len(sv.Const) < 5 || sv.Const[:4] != "arg:" {
					return x.C.Const(64, 0)
				}
				return x.C.Var(64, sv.Const[4:])
			}
			x.Stub(run.ModPath+"/uci.vpNumArg", func(x *vexec.Exec, a []vexec.Val, g *sym.Term) vexec.Val {
				return &vexec.StringV{Const: "arg:" + a[0].(*vexec.StringV).Const}
			})
			x.Stub(run.ModPath+"/uci.parseInt", func(x *vexec.Exec, a []vexec.Val, g *sym.Term) vexec.Val { return val(x, a) })
			x.Stub(run.ModPath+"/uci.parseInt64", func(x *vexec.Exec, a []vexec.Val, g *sym.Term) vexec.Val { return val(x, a) })
			x.Stub("(*sync.WaitGroup).Go", func(x *vexec.Exec, a []vexec.Val, g *sym.Term) vexec.Val { return nil })
			x.Stub("(*sync.WaitGroup).Wait", func(x *vexec.Exec, a []vexec.Val, g *sym.Term) vexec.Val { return nil })
		}
		s.Instances = append(s.Instances,
			run.Instance{Pkg: "uci", Func: "VpH_C06_godepth", Opt: run.Options{Setup: stub}},
			run.Instance{Pkg: "search", Func: "VpH_C06_refresh"})
		s.Instances = append(s.Instances, absInstances(tier, false)...)
		// discharge of the contract the abstract-position harnesses rest on ("undo with the returned token restores the
		// position"): the real MakeMove/UndoMove pair and the null-move pair on an arbitrary valid position (every
		// attribute incl. both clocks symbolic) for one move of each kind the search plays. C03 decides the same
		// obligation on its full case split; this sample is here so that "board left untouched" does not silently rest
		// on another check (seeded change C06-m3: the undo token keeps only 6 bits of the halfmove clock).
		for _, c := range [][4]int64{{0, 6, 21, 0}, {1, 52, 36, 0}, {0, 4, 6, 0}, {1, 60, 58, 0}, {0, 51, 59, 4}, {1, 11, 2, 5}, {0, 35, 42, 0}, {1, 63, 7, 0}} {
			s.Instances = append(s.Instances, run.Instance{Pkg: "board", Func: "VpH_C03_undo",
				Params: map[string]int64{"stm": c[0], "from": c[1], "to": c[2], "promo": c[3], "hist": 2}})
		}
		for stm := int64(0); stm < 2; stm++ {
			s.Instances = append(s.Instances, run.Instance{Pkg: "board", Func: "VpH_C03_null", Params: map[string]int64{"stm": stm, "hist": 2}})
		}
		return s
	}
}

// absInstances are the per-activation harnesses under the abstract-position contracts. With storeObs the persistent
// stores are asserted to happen only while the abort flag is clear (C08); without, the restoration obligations
// (C06) are what is asserted (the same executions produce both, each check claims its own).
func absInstances(tier string, storeObs bool) []run.Instance {
	k := 2
	if tier == "thorough" {
		k = 3
	}
	mk := func(fn string, stubRec bool) run.Instance {
		setup := func(x *vexec.Exec, w *run.World) {
			bT := w.Pkgs[run.ModPath+"/board"].Type("Board").Type()
			sT := w.Pkgs[run.ModPath+"/search"].Type("Search").Type()
			a := &absSearch{w: w, boardT: bT, searchT: sT, posIx: fieldIx(bT, "fullMoves"), stmIx: fieldIx(bT, "STM"), abortIx: fieldIx(sT, "aborted"), pvIx: fieldIx(sT, "pv")}
			a.install(x, stubRec, fn != "VpH_C06_deepen", func(site string, g, aborted *sym.Term) {
				if storeObs {
					x.AddAssert("no-"+site+"-once-the-abort-flag-is-set", g, x.C.Not(aborted))
				}
			})
		}
		return run.Instance{Pkg: "search", Func: fn, Opt: run.Options{Abstract: true, Setup: setup, LoopBound: k, UnwindMode: "assume", PanicMode: "ignore", TimeoutMs: 300000}}
	}
	var out []run.Instance
	for _, ply := range []int64{0, 1, 7, 62, 63} {
		for _, fn := range []string{"VpH_C06_alphabeta", "VpH_C06_quiescence"} {
			in := mk(fn, true)
			in.Params = map[string]int64{"ply": ply}
			out = append(out, in)
		}
	}
	if !storeObs {
		in := mk("VpH_C06_deepen", true)
		in.Opt.LoopBound = 3
		in.Opt.Setup = wrapTimeStubs(in.Opt.Setup)
		out = append(out, in)
	}
	return out
}

// wrapTimeStubs adds the environment contracts iterativeDeepen needs: the clock returns arbitrary values.
func wrapTimeStubs(prev func(x *vexec.Exec, w *run.World)) func(x *vexec.Exec, w *run.World) {
	return func(x *vexec.Exec, w *run.World) {
		prev(x, w)
		n := 0
		tT := w.Prog.ImportedPackage("time").Type("Time").Type()
		x.Stub("time.Now", func(x *vexec.Exec, a []vexec.Val, g *sym.Term) vexec.Val { return x.Zero(tT) })
		x.Stub("time.Since", func(x *vexec.Exec, a []vexec.Val, g *sym.Term) vexec.Val {
			n++
			return x.C.Var(64, "elapsed#"+string(rune('a'+n)))
		})
		x.Stub(run.ModPath+"/search.pvInfo", func(x *vexec.Exec, a []vexec.Val, g *sym.Term) vexec.Val { return &vexec.StringV{Const: "<pv>"} })
	}
}
