package checks

import (
	vexec "vp/exec"
	"vp/run"
	"vp/sym"
)

func init() {
	Reg["C20"] = func(tier string, seed int64) *Spec {
		s := &Spec{
			Prop: "C20",
			Pkgs: []string{"vpepd", "vptuning"},
			Virtual: map[string][]string{
				"vpepd":    {"tools/tuner/epd/chunker.go", "tools/tuner/epd/by_lines.go"},
				"vptuning": {"tools/tuner/tuning/batch.go", "tools/tuner/tuning/tuning.go"},
			},
			Bounds: []string{
				"Feistel network: every bit width 1..64 (one instance each), every 64-bit seed, every pair of inputs, ANY round function (uninterpreted) => injective and in range",
				"shuffleIndex as a whole: every n in {2..8, 12..16} (quick; n = 9,10,11,17 need 6-16 rejection rounds and did not close within the time limit), thorough tries 2..33; every seed, any round function; rejection loop unrolled size-n+1 times with an unwinding assertion",
				"Batches: every line count 1..500000 (loop unrolled 6 times, unwinding assertion); Chunks: by induction on the real iterator for every batch of 1..100000 lines at any offset below 2^40: first chunk correct and non-empty, continuation iff lines remain, second chunk of [s,e) == first chunk of [s+c,e) (iterator called with a yield that stops after 2 / 1 chunks)",
			},
			Stubs: []string{"epd.roundFunc -> uninterpreted function of (x, k): the bijection claim must hold for any round function"},
			Outside: []string{
				"the file-backed line manifest and chunk reader (NewChunker, Chunk.Read, ByLines.Read over os.File/bufio): not encoded yet",
				"slices.SortFunc, the 32 MiB buffer allocation",
			},
		}
		uf := func(x *vexec.Exec, w *run.World) {
			x.Stub(run.ModPath+"/vpepd.roundFunc", func(x *vexec.Exec, a []vexec.Val, g *sym.Term) vexec.Val {
				return x.C.App("roundFunc", 64, a[0].(*sym.Term), a[1].(*sym.Term))
			})
		}
		for b := int64(1); b <= 64; b++ {
			s.Instances = append(s.Instances, run.Instance{Pkg: "vpepd", Func: "VpH_C20_feistel", Params: map[string]int64{"bits": b}, Opt: run.Options{Setup: uf}})
		}
		maxn := int64(17)
		if tier == "thorough" {
			maxn = 33
		}
		for n := int64(2); n <= maxn; n++ {
			if tier != "thorough" && n >= 9 && n <= 11 || n == 17 {
				continue // many rejection rounds: did not close within the time limit; covered by the lemmas only
			}
			size := int64(1)
			for size < n {
				size <<= 1
			}
			exact := run.Instance{Pkg: "vpepd", Func: "VpH_C20_shuffle", Opt: run.Options{LoopBound: int(size-n) + 1, UnwindMode: "assert", TimeoutMs: 60000}}
			s.Instances = append(s.Instances, run.Instance{Pkg: "vpepd", Func: "VpH_C20_shuffle", Params: map[string]int64{"n": n},
				Opt: run.Options{Setup: uf, LoopBound: int(size-n) + 1, UnwindMode: "assert"}, Exact: &exact})
		}
		s.Instances = append(s.Instances,
			run.Instance{Pkg: "vptuning", Func: "VpH_C20_batches", Params: map[string]int64{"maxn": 500000}, Opt: run.Options{LoopBound: 6, UnwindMode: "assert"}},
			run.Instance{Pkg: "vptuning", Func: "VpH_C20_chunks", Opt: run.Options{LoopBound: 3, UnwindMode: "assume"}})
		return s
	}
}
