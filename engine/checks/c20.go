package checks

import (
	"fmt"

	vexec "vp/exec"
	"vp/run"
	"vp/sym"
)

func init() {
	Reg["C20"] = func(tier string, seed int64) *Spec {
		s := &Spec{
			Prop: "C20",
			Pkgs: []string{"vpepd", "vptuning"},
			Virtual: map[string][]string{
				"vpepd":    {"tools/tuner/epd/chunker.go", "tools/tuner/epd/by_lines.go"},
				"vptuning": {"tools/tuner/tuning/batch.go", "tools/tuner/tuning/tuning.go"},
			},
			Bounds: []string{
				"Feistel network: every bit width 1..64 (one instance each), every 64-bit seed, every pair of inputs, ANY round function (uninterpreted) => injective and in range",
				"shuffleIndex as a whole: every n in {2..8, 12..16} (quick) plus {28..32} (thorough); n = 9..11, 17..27, 33 need 6-16 rejection rounds and did not close within the time limit; every seed, any round function; rejection loop unrolled size-n+1 times with an unwinding assertion",
				"file-backed manifest and reader: EVERY newline-terminated file of 1..7 (quick) / 1..10 (thorough) bytes, all bytes symbolic, read-window sizes 4 and 16 (refills exercised); os/bufio calls served by contracts from the symbolic byte array; loops unrolled size+2 times with unwinding assertions",
				"Batches: every line count 1..500000 (loop unrolled 6 times, unwinding assertion); Chunks: by induction on the real iterator for every batch of 1..100000 lines at any offset below 2^40: first chunk correct and non-empty, continuation iff lines remain, second chunk of [s,e) == first chunk of [s+c,e) (iterator called with a yield that stops after 2 / 1 chunks)",
			},
			Stubs: []string{"epd.roundFunc -> uninterpreted function of (x, k): the bijection claim must hold for any round function"},
			Outside: []string{
				"Chunker.Open (shuffled window incl. slices.SortFunc and the 32 MiB buffer allocation): the file harness reads the manifest through a Chunk in file order with a small window instead",
				"slices.SortFunc, the 32 MiB buffer allocation",
			},
		}
		uf := func(x *vexec.Exec, w *run.World) {
			x.Stub(run.ModPath+"/vpepd.roundFunc", func(x *vexec.Exec, a []vexec.Val, g *sym.Term) vexec.Val {
				return x.C.App("roundFunc", 64, a[0].(*sym.Term), a[1].(*sym.Term))
			})
		}
		for b := int64(1); b <= 64; b++ {
			s.Instances = append(s.Instances, run.Instance{Pkg: "vpepd", Func: "VpH_C20_feistel", Params: map[string]int64{"bits": b}, Opt: run.Options{Setup: uf}})
		}
		maxn := int64(17)
		if tier == "thorough" {
			maxn = 33
		}
		for n := int64(2); n <= maxn; n++ {
			if n >= 9 && n <= 11 || n >= 17 && n <= 27 || n == 33 {
				continue // many rejection rounds (n just above a power of two): did not close within the time limit; covered by the lemmas only
			}
			size := int64(1)
			for size < n {
				size <<= 1
			}
			exact := run.Instance{Pkg: "vpepd", Func: "VpH_C20_shuffle", Opt: run.Options{LoopBound: int(size-n) + 1, UnwindMode: "assert", TimeoutMs: 60000}}
			s.Instances = append(s.Instances, run.Instance{Pkg: "vpepd", Func: "VpH_C20_shuffle", Params: map[string]int64{"n": n},
				Opt: run.Options{Setup: uf, LoopBound: int(size-n) + 1, UnwindMode: "assert"}, Exact: &exact})
		}
		for size := int64(1); size <= fileMax(tier); size++ {
			for _, window := range []int64{4, 16} {
				s.Instances = append(s.Instances, run.Instance{Pkg: "vpepd", Func: "VpH_C20_file", Params: map[string]int64{"size": size, "window": window},
					Opt: run.Options{Setup: fileModel, LoopBound: int(size) + 2, UnwindMode: "assert", TimeoutMs: 300000}})
			}
		}
		s.Instances = append(s.Instances,
			run.Instance{Pkg: "vptuning", Func: "VpH_C20_batches", Params: map[string]int64{"maxn": 500000}, Opt: run.Options{LoopBound: 6, UnwindMode: "assert"}},
			run.Instance{Pkg: "vptuning", Func: "VpH_C20_chunks", Opt: run.Options{LoopBound: 3, UnwindMode: "assume"}})
		return s
	}
}

func fileMax(tier string) int64 {
	if tier == "thorough" {
		return 10
	}
	return 7
}

// fileModel serves os.Open / bufio.Reader.ReadSlice / os.File.ReadAt / Close from the harness's byte array
// (contracts: ReadSlice returns the bytes up to and including the next delimiter or io.EOF at the end; ReadAt copies
// as many bytes as the file has from the offset and reports io.EOF on a short read).
func fileModel(x *vexec.Exec, w *run.World) {
	c := x.C
	pkg := w.Pkgs[run.ModPath+"/vpepd"]
	fileG := pkg.Var("vpFile")
	eofG := w.Prog.ImportedPackage("io").Var("EOF")
	osFileT := w.Prog.ImportedPackage("os").Type("File").Type()
	rdT := w.Prog.ImportedPackage("bufio").Type("Reader").Type()
	nilErr := func() vexec.Val { return &vexec.IfaceV{IsNil: c.True} }
	size := func() int64 { return x.H.Params["size"] }
	pos := c.Const(64, 0)
	x.Stub(run.ModPath+"/vpepd.vpWriteFile", func(x *vexec.Exec, a []vexec.Val, g *sym.Term) vexec.Val {
		return &vexec.StringV{Const: "vpfile"}
	})
	x.Stub("os.Open", func(x *vexec.Exec, a []vexec.Val, g *sym.Term) vexec.Val {
		return &vexec.TupleV{E: []vexec.Val{x.NewObject("file", osFileT, x.Zero(osFileT)), nilErr()}}
	})
	x.Stub("(*os.File).Close", func(x *vexec.Exec, a []vexec.Val, g *sym.Term) vexec.Val { return nilErr() })
	x.Stub("bufio.NewReader", func(x *vexec.Exec, a []vexec.Val, g *sym.Term) vexec.Val {
		pos = c.Ite(g, c.Const(64, 0), pos)
		return x.NewObject("reader", rdT, x.Zero(rdT))
	})
	fileBytes := func() *vexec.ArrayV {
		v := x.Load(x.GlobalPtr(fileG))
		if t, ok := v.(*vexec.TableV); ok {
			return x.TableToArray(t)
		}
		return v.(*vexec.ArrayV)
	}
	x.Stub("(*bufio.Reader).ReadSlice", func(x *vexec.Exec, a []vexec.Val, g *sym.Term) vexec.Val {
		n := size()
		delim := a[1].(*sym.Term)
		fb := fileBytes()
		nl := c.Const(64, uint64(n))
		for j := n - 1; j >= 0; j-- {
			hit := c.And(c.Ule(pos, c.Const(64, uint64(j))), c.Eq(fb.E[j].(*sym.Term), delim))
			nl = c.Ite(hit, c.Const(64, uint64(j)), nl)
		}
		atEnd := c.Not(c.Ult(nl, c.Const(64, uint64(n)))) // no delimiter left: rest of the file + io.EOF
		end := c.Ite(atEnd, c.Const(64, uint64(n)), c.Add(nl, c.Const(64, 1)))
		ln := c.Sub(end, pos)
		obj := x.GlobalPtr(fileG).Alts[0].Obj
		sl := &vexec.SliceV{Obj: obj, Off: pos, Len: ln, Cap: ln}
		eof := x.Load(x.GlobalPtr(eofG)).(*vexec.IfaceV)
		err := &vexec.IfaceV{IsNil: c.Not(atEnd), Typ: eof.Typ, V: eof.V}
		pos = c.Ite(g, end, pos)
		if x.Trace {
			fmt.Printf("      ReadSlice: g=%v atEnd=%v(%d) pos'=%v k0=%x k1=%x\n", g, atEnd, atEnd.C, pos, pos.K0, pos.K1)
		}
		return &vexec.TupleV{E: []vexec.Val{sl, err}}
	})
	x.Stub("(*os.File).ReadAt", func(x *vexec.Exec, a []vexec.Val, g *sym.Term) vexec.Val {
		n := size()
		buf := a[1].(*vexec.SliceV)
		off := a[2].(*sym.Term)
		fb := fileBytes()
		if !buf.Len.IsConst() {
			panic(&vexec.ExecError{Msg: "ReadAt into a buffer of symbolic length"})
		}
		bl := int(buf.Len.C)
		avail := c.Ite(c.Slt(off, c.Const(64, uint64(n))), c.Sub(c.Const(64, uint64(n)), off), c.Const(64, 0))
		cnt := c.Ite(c.Ult(avail, c.Const(64, uint64(bl))), avail, c.Const(64, uint64(bl)))
		for i := 0; i < bl; i++ {
			src := x.C.Mux(c.Add(off, c.Const(64, uint64(i))), int(n), func(k int) *sym.Term { return fb.E[k].(*sym.Term) })
			x.StoreSliceElem(buf, i, src, c.And(g, c.Ult(c.Const(64, uint64(i)), cnt)))
		}
		eof := x.Load(x.GlobalPtr(eofG)).(*vexec.IfaceV)
		short := c.Ult(cnt, c.Const(64, uint64(bl)))
		return &vexec.TupleV{E: []vexec.Val{cnt, &vexec.IfaceV{IsNil: c.Not(short), Typ: eof.Typ, V: eof.V}}}
	})
}
