package checks

import "vp/run"

func init() {
	Reg["C14"] = func(tier string, seed int64) *Spec {
		return &Spec{
			Prop: "C14",
			Pkgs: []string{"uci"},
			Instances: []run.Instance{
				{Pkg: "uci", Func: "VpH_C14"},
				{Pkg: "uci", Func: "VpH_C14_indep", Params: map[string]int64{"stm": 0}},
				{Pkg: "uci", Func: "VpH_C14_indep", Params: map[string]int64{"stm": 1}},
			},
			Bounds: []string{
				"remaining time and move time 0..10^12 ms, increments 0..10^9 ms, both colours, all five clock fields symbolic 64-bit values (no sampling)",
			},
			Assumptions: []string{
				"the GUI reports a remaining time >= 1 ms for the mover or a move time >= 1 ms (timed mode)",
				"opponent clock fields are arbitrary in the same ranges",
			},
			Outside: []string{
				"arming and firing of the time.Timer and the interrupt goroutine (C13, not applicable)",
				"clock values above 10^12 ms / increments above 10^9 ms",
			},
		}
	}
}
