// Package checks holds the per-property check specifications and the common driver that runs them.
package checks

import (
	"encoding/json"
	"fmt"
	"os"
	"path/filepath"
	"regexp"
	"sort"
	"strconv"
	"strings"
	"sync"
	"time"

	vexec "vp/exec"
	"vp/run"
	"vp/sym"
)

// Spec describes one property's check at one tier.
type Spec struct {
	Prop        string
	Pkgs        []string // repo package directories to load
	Tags        string
	Instances   []run.Instance
	Bounds      []string // stated bounds
	Stubs       []string // environment models / intercepted functions
	Assumptions []string
	Outside     []string // explicitly outside the claim
	Exclusions  []string // known-finding ids this spec's harnesses can exclude through vp.Param("excl_<id>")
	Witnesses   map[string]run.Instance // known-finding id -> instance whose assertion reproduces it
	Extra       func(w *run.World, ev *Evidence) error // non-solver side facts (SSA scans), recorded in evidence
	Workers     int
	Confirm     *ConfirmRun // native search for a concrete failing case, run only when an abstract harness has a counterexample
	Native      []NativeRun // native-only validations of the specification layer on the repo's own test positions
	Virtual     map[string][]string // overlay-only package dir -> repo-relative source files presented there
	SliderSummary bool // replace slider lookups by the ray-walk spec, licensed per square by re-proving the C12 lemma first
}

type NativeRun struct{ Pkg, Func string }

// ConfirmRun names the native sweep that looks for a concrete failing case and the native function that replays one.
type ConfirmRun struct{ Pkg, Sweep, Case string }

type KnownFinding struct {
	Property    string `json:"property"`
	ID          string `json:"id"`
	Status      string `json:"status"` // "finding" or "fixed"
	Commit      string `json:"commit,omitempty"`
	What        string `json:"what"`
	Input       string `json:"input,omitempty"`
}

type Evidence struct {
	PropertyID  string         `json:"property_id"`
	Tier        string         `json:"tier"`
	Seed        int64          `json:"seed"`
	Level       string         `json:"level"`
	Coverage    map[string]any `json:"coverage"`
	Assumptions []string       `json:"assumptions"`
	WallS       float64        `json:"wall_s"`
	Violations  int            `json:"violations"`
}

type Registry map[string]func(tier string, seed int64) *Spec

var Reg = Registry{}

// debugging knobs
var Only string
var TimeoutOverride int

func loadKnown(verifDir string) ([]KnownFinding, error) {
	data, err := os.ReadFile(filepath.Join(verifDir, "known_findings.json"))
	if err != nil {
		if os.IsNotExist(err) {
			return nil, nil
		}
		return nil, err
	}
	var k []KnownFinding
	if err := json.Unmarshal(data, &k); err != nil {
		return nil, err
	}
	return k, nil
}

// Run executes the check for prop and returns the process exit code.
func Run(prop, tier string, seed int64, repoDir, verifDir string, verbose bool) int {
	t0 := time.Now()
	mk, ok := Reg[prop]
	if !ok {
		fmt.Printf("no check registered for %s\n", prop)
		return 2
	}
	spec := mk(tier, seed)
	known, err := loadKnown(verifDir)
	if err != nil {
		fmt.Println("cannot read known_findings.json:", err)
		return 2
	}
	activeFinding := map[string]KnownFinding{}
	for _, k := range known {
		if k.Property == prop && k.Status == "finding" {
			activeFinding[k.ID] = k
		}
	}
	w, err := run.LoadV(repoDir, filepath.Join(verifDir, "harness"), spec.Pkgs, spec.Tags, spec.Virtual)
	if err != nil {
		fmt.Println("LOAD FAILED:", err)
		return 2
	}
	defer w.Close()
	if err := w.DumpGlobals(); err != nil {
		fmt.Println("GLOBALS DUMP FAILED:", err)
		return 2
	}
	// native validation of the specification layer against the engine on the repository's own test positions
	var nativeNotes []string
	nativeBad := false
	if len(spec.Native) > 0 {
		corpus, n, err := writeCorpus(repoDir, w.TmpDir)
		if err != nil {
			fmt.Println("BROKEN corpus:", err)
			return 2
		}
		os.Setenv("VP_CORPUS", corpus)
		for _, nr := range spec.Native {
			out, _ := w.ReplayTape(nr.Pkg, nr.Func, filepath.Join(w.TmpDir, "none.json"))
			dis := 0
			for _, l := range strings.Split(out, "\n") {
				if strings.HasPrefix(l, "VP-CORPUS-DISAGREE") {
					dis++
					if dis <= 5 {
						fmt.Println("NOTE spec/implementation disagreement on a corpus position:", strings.TrimPrefix(l, "VP-CORPUS-DISAGREE "))
					}
				}
			}
			pos := ""
			for _, l := range strings.Split(out, "\n") {
				if strings.HasPrefix(l, "VP-CORPUS-POSITIONS") {
					pos = strings.TrimSpace(strings.TrimPrefix(l, "VP-CORPUS-POSITIONS"))
				}
			}
			if !strings.Contains(out, "VP-REPLAY-COMPLETED") {
				fmt.Println("BROKEN native validation", nr.Func, "did not complete:\n", tailStr(out, 600))
				return 2
			}
			if dis > 0 {
				nativeBad = true
			}
			nativeNotes = append(nativeNotes, fmt.Sprintf("%s.%s: specification layer compared natively with the engine on %s positions (from %d FENs of the repo's tests and perft suite, plus one ply), %d disagreements", nr.Pkg, nr.Func, pos, n, dis))
		}
	}
	// exclusion parameters
	insts := append([]run.Instance(nil), spec.Instances...)
	if Only != "" {
		var f []run.Instance
		for _, in := range insts {
			if strings.Contains(in.Name(), Only) {
				f = append(f, in)
			}
		}
		insts = f
	}
	for i := range insts {
		p := map[string]int64{}
		for k, v := range insts[i].Params {
			p[k] = v
		}
		for _, id := range spec.Exclusions {
			if _, on := activeFinding[id]; on {
				p["excl_"+id] = 1
			} else {
				p["excl_"+id] = 0
			}
		}
		insts[i].Params = p
		insts[i].Prop = prop
	}
	// witnesses of active known findings
	type witness struct {
		id   string
		inst run.Instance
	}
	var wits []witness
	for id := range activeFinding {
		if wi, ok := spec.Witnesses[id]; ok {
			p := map[string]int64{}
			for k, v := range wi.Params {
				p[k] = v
			}
			for _, e := range spec.Exclusions {
				p["excl_"+e] = 0
			}
			wi.Params = p
			wi.Prop = prop
			wits = append(wits, witness{id, wi})
		}
	}
	sort.Slice(wits, func(i, j int) bool { return wits[i].id < wits[j].id })

	nw := spec.Workers
	if nw <= 0 {
		nw = 16
	}
	// slider summaries: re-prove lookup == ray walk for every square first; unproved squares keep the exact encoding
	var lemmaNote string
	if spec.SliderSummary {
		lic, note, err := proveSliderLemmas(w, nw)
		if err != nil {
			fmt.Println("BROKEN slider lemma run:", err)
			return 2
		}
		lemmaNote = note
		rook := w.Func("attacks", "RookMoves")
		bishop := w.Func("attacks", "BishopMoves")
		for i := range insts {
			prev := insts[i].Opt.Setup
			insts[i].Opt.Setup = func(x *vexec.Exec, w *run.World) {
				x.InstallSliderSummary(rook, bishop, func(kind string, sq int) bool { return lic[kind][sq] })
				if prev != nil {
					prev(x, w)
				}
			}
		}
		for i := range wits {
			prev := wits[i].inst.Opt.Setup
			wits[i].inst.Opt.Setup = func(x *vexec.Exec, w *run.World) {
				x.InstallSliderSummary(rook, bishop, func(kind string, sq int) bool { return lic[kind][sq] })
				if prev != nil {
					prev(x, w)
				}
			}
		}
	}
	all := append([]run.Instance(nil), insts...)
	for _, wi := range wits {
		all = append(all, wi.inst)
	}
	if nw > len(all) {
		nw = len(all)
	}
	results := make([]*run.InstResult, len(all))
	var wg sync.WaitGroup
	jobs := make(chan int)
	var mu sync.Mutex
	for k := 0; k < nw; k++ {
		wg.Add(1)
		go func() {
			defer wg.Done()
			var s *sym.Pool
			defer func() {
				if s != nil {
					s.Close()
				}
			}()
			for i := range jobs {
				inst := all[i]
				kinds := inst.Opt.Solver
				if kinds == "" {
					kinds = "z3-new,z3"
				}
				to := inst.Opt.TimeoutMs
				if to == 0 {
					to = 120000
				}
				if TimeoutOverride > 0 {
					to = TimeoutOverride
				}
				if s == nil || strings.Join(s.Kinds, ",") != kinds || s.SoftMs != to {
					if s != nil {
						s.Close()
					}
					s = sym.NewPool(strings.Split(kinds, ","), to)
				}
				r := w.RunInstance(inst, s)
				// replay satisfiable obligations natively
				for j := range r.Obs {
					o := &r.Obs[j]
					if o.Verdict == "sat" && o.Kind != "cover" && o.Kind != "unwind" && o.Model != nil {
						if inst.Opt.Abstract {
							o.Replayed = "abstract"
						} else {
							o.Replayed, o.ReplayPath = w.Replay(inst, o, filepath.Join(verifDir, "replays", prop))
						}
					}
				}
				// a counterexample under an abstraction that does not reproduce is re-decided with the exact encoding
				if inst.Exact != nil && r.Err == nil {
					need := false
					for _, o := range r.Obs {
						if o.Verdict == "sat" && o.Kind != "cover" && o.Replayed != "confirmed" {
							need = true
						}
					}
					if need {
						ex := *inst.Exact
						ex.Prop, ex.Params = inst.Prop, inst.Params
						r2 := w.RunInstance(ex, s)
						for j := range r2.Obs {
							o := &r2.Obs[j]
							if o.Verdict == "sat" && o.Kind != "cover" && o.Kind != "unwind" && o.Model != nil {
								o.Replayed, o.ReplayPath = w.Replay(ex, o, filepath.Join(verifDir, "replays", prop))
							}
							o.Detail = "[exact encoding after an unreproduced abstract counterexample] " + o.Detail
						}
						r2.Inst = inst
						r = r2
					}
				}
				results[i] = r
				if verbose {
					mu.Lock()
					printInst(r)
					mu.Unlock()
				}
			}
		}()
	}
	for i := range all {
		jobs <- i
	}
	close(jobs)
	wg.Wait()

	// ------------------------------------------------------------ abstract counterexamples need a concrete witness
	abstractSat := false
	for i, r := range results {
		if i >= len(insts) || r.Err != nil {
			continue
		}
		for _, o := range r.Obs {
			if o.Replayed == "abstract" {
				abstractSat = true
			}
		}
	}
	confirmedPath, confirmedWhat := "", ""
	if os.Getenv("VP_FORCE_CONFIRM") != "" && spec.Confirm != nil {
		abstractSat = true // debug: run the native confirmation sweep although no abstract counterexample exists
	}
	if abstractSat && spec.Confirm != nil {
		if os.Getenv("VP_CORPUS") == "" {
			if corpus, _, err := writeCorpus(repoDir, w.TmpDir); err == nil {
				os.Setenv("VP_CORPUS", corpus)
			}
		}
		out, _ := w.ReplayTapeTimeout(spec.Confirm.Pkg, spec.Confirm.Sweep, filepath.Join(w.TmpDir, "none.json"), "1200s")
		if os.Getenv("VP_FORCE_CONFIRM") != "" {
			fmt.Println("NOTE forced confirmation sweep output:", tailStr(out, 3000))
		}
		for _, l := range strings.Split(out, "\n") {
			if strings.HasPrefix(l, "VP-CONFIRMED ") {
				parts := strings.SplitN(strings.TrimPrefix(l, "VP-CONFIRMED "), "|", 3)
				if len(parts) == 3 {
					k, _ := strconv.ParseInt(parts[2], 10, 64)
					tape := map[string]any{"harness": spec.Confirm.Pkg + "." + spec.Confirm.Case, "property": prop, "label": parts[0],
						"params": map[string]int64{"k": k}, "strs": map[string]string{"fen": parts[1]}, "vars": map[string]uint64{}}
					data, _ := json.MarshalIndent(tape, "", " ")
					dir := filepath.Join(verifDir, "replays", prop)
					os.MkdirAll(dir, 0o755)
					confirmedPath = filepath.Join(dir, fmt.Sprintf("%s_confirmed_%s.json", prop, strings.Map(func(r rune) rune {
						if r == ' ' || r == '/' {
							return '_'
						}
						return r
					}, parts[0])))
					os.WriteFile(confirmedPath, data, 0o644)
					confirmedWhat = fmt.Sprintf("%s on %q with k=%d", parts[0], parts[1], k)
				}
			}
		}
	}
	exit := 0
	nViol := 0
	var lines []string
	ob, dis, triv, queries := 0, 0, 0, 0
	hunted := 0
	solverMs, execMs := 0.0, 0.0
	funcs := map[string]int{}
	stubs := map[string]int{}
	unw := map[string]bool{}
	var samples []any
	terms, instrs, reidx := 0, 0, 0
	covSat, covAll := 0, 0
	distinct := map[string]bool{}
	for i, r := range results {
		isWitness := i >= len(insts)
		if r.Err != nil {
			lines = append(lines, fmt.Sprintf("BROKEN %s: %v", r.Inst.Name(), r.Err))
			exit = max(exit, 2)
			continue
		}
		execMs += r.ExecMs
		solverMs += r.SolverMs
		queries += r.Queries
		terms += r.Terms
		instrs += r.Instrs
		reidx += r.Reindexed
		for k, v := range r.Funcs {
			funcs[k] = v
		}
		for k, v := range r.Stubs {
			stubs[k] += v
		}
		for _, u := range r.Unwinds {
			unw[u] = true
		}
		if isWitness {
			wid := wits[i-len(insts)].id
			hit := false
			for _, o := range r.Obs {
				if o.Kind != "cover" && o.Verdict == "sat" && o.Replayed == "confirmed" {
					hit = true
				}
			}
			if hit {
				lines = append(lines, fmt.Sprintf("KNOWN-FINDING: property=%s %s: %s", prop, wid, activeFinding[wid].What))
			} else {
				lines = append(lines, fmt.Sprintf("note: known finding %s of %s no longer reproduces with its witness harness", wid, prop))
			}
			continue
		}
		for _, o := range r.Obs {
			if o.Kind == "cover" {
				covAll++
				if o.Verdict == "sat" {
					covSat++
				} else {
					lines = append(lines, fmt.Sprintf("VACUOUS %s %s: %s %s", r.Inst.Name(), o.Label, o.Verdict, o.Detail))
					exit = max(exit, 2)
				}
				continue
			}
			ob++
			if !o.Trivial {
				distinct[r.Inst.Name()+"/"+o.Label] = true
			}
			switch o.Verdict {
			case "unsat":
				dis++
				if o.Trivial {
					triv++
				}
			case "sat":
				if o.Kind == "unwind" {
					lines = append(lines, fmt.Sprintf("UNWINDING-ASSERTION-FAILED %s %s", r.Inst.Name(), o.Label))
					exit = max(exit, 2)
					break
				}
				if o.Replayed == "abstract" {
					if confirmedPath != "" {
						nViol++
						lines = append(lines, fmt.Sprintf("VIOLATION property=%s replay=%s", prop, confirmedPath))
						lines = append(lines, fmt.Sprintf("  abstract counterexample of %s obligation=%q confirmed on the real search: %s", r.Inst.Name(), o.Label, confirmedWhat))
						exit = max(exit, 1)
					} else {
						lines = append(lines, fmt.Sprintf("INCONCLUSIVE %s %q: counterexample against the activation contracts; no concrete failing search found by the native confirmation run", r.Inst.Name(), o.Label))
						exit = max(exit, 2)
					}
					break
				}
				if o.Replayed == "confirmed" {
					nViol++
					lines = append(lines, fmt.Sprintf("VIOLATION property=%s replay=%s", prop, o.ReplayPath))
					lines = append(lines, fmt.Sprintf("  harness=%s obligation=%q %s", r.Inst.Name(), o.Label, o.Detail))
					exit = max(exit, 1)
				} else {
					lines = append(lines, fmt.Sprintf("INCONCLUSIVE %s %q: solver model not reproduced natively (%s) tape=%s", r.Inst.Name(), o.Label, o.Replayed, o.ReplayPath))
					exit = max(exit, 2)
				}
			default:
				if r.Inst.Opt.Hunt {
					hunted++
					ob-- // not an obligation of the claim
					break
				}
				lines = append(lines, fmt.Sprintf("INCONCLUSIVE %s %q: %s %s", r.Inst.Name(), o.Label, o.Verdict, o.Detail))
				exit = max(exit, 2)
			}
		}
		if len(samples) < 6 {
			for _, o := range r.Obs {
				if o.Kind != "cover" && !o.Trivial {
					samples = append(samples, map[string]any{"harness": r.Inst.Name(), "obligation": o.Label, "kind": o.Kind, "verdict": o.Verdict, "solver_ms": o.Ms})
					break
				}
			}
		}
	}
	if len(samples) == 0 {
		for _, r := range results {
			if r.Err == nil && len(r.Obs) > 0 {
				samples = append(samples, map[string]any{"harness": r.Inst.Name(), "obligation": r.Obs[0].Label, "verdict": r.Obs[0].Verdict})
				break
			}
		}
	}
	var fl []string
	for k, v := range funcs {
		if strings.Contains(k, "/vp.") {
			continue
		}
		fl = append(fl, fmt.Sprintf("%s (%d SSA instrs)", strings.ReplaceAll(k, run.ModPath+"/", ""), v))
	}
	sort.Strings(fl)
	var sl []string
	for k, v := range stubs {
		if strings.Contains(k, "/vp.") {
			continue
		}
		sl = append(sl, fmt.Sprintf("%s x%d", strings.ReplaceAll(k, run.ModPath+"/", ""), v))
	}
	sort.Strings(sl)
	var ul []string
	for u := range unw {
		ul = append(ul, strings.ReplaceAll(u, repoDir+"/", ""))
	}
	sort.Strings(ul)
	if spec.Assumptions == nil {
		spec.Assumptions = []string{}
	}
	evTier := tier
	if evTier != "quick" {
		evTier = "thorough" // the schema knows two tiers; `exhaustive`/`diagnostic` runs are recorded as thorough
	}
	ev := &Evidence{PropertyID: prop, Tier: evTier, Seed: seed, Level: "model_checking", Assumptions: spec.Assumptions, Violations: nViol}
	ev.Coverage = map[string]any{
		"evaluations":               ob,
		"distinct_nontrivial":       len(distinct),
		"rule":                      "one evaluation = one proof obligation (harness assertion, no-panic group or unwinding assertion) of one harness instance, decided for ALL values of the symbolic inputs within the stated bounds; an obligation is non-trivial if it was not closed by the simplifier alone and had to be decided by the SMT solver; distinct = distinct (instance, obligation label) pairs",
		"samples":                   samples,
		"obligations":               ob,
		"discharged":                dis,
		"closed_by_simplifier":      triv,
		"solver_queries":            queries,
		"vacuity_checks_sat":        fmt.Sprintf("%d/%d", covSat, covAll),
		"harness_instances":         len(insts),
		"functions_encoded":         fl,
		"intercepted_calls":         sl,
		"stubs_and_models":          spec.Stubs,
		"bounds":                    spec.Bounds,
		"unwound_loops_at_bound":    ul,
		"outside_the_claim":         spec.Outside,
		"ssa_instructions_executed": instrs,
		"terms_built":               terms,
		"bitscan_loops_reindexed":   reidx,
		"solver":                    "portfolio race of z3 5.1.0 (z3-new -in) and z3 4.8.12 (z3 -in) on each query; first sat/unsat answer wins; SMT-LIB2 QF_BV(+UF) text regenerated from /repo's working tree on this run; any error/unknown/timeout is inconclusive, never success",
		"solver_s":                  solverMs / 1000,
		"symbolic_execution_s":      execMs / 1000,
		"load_and_ssa_build_s":      w.LoadTime.Seconds(),
		"native_globals_dump_s":     w.DumpTime.Seconds(),
		"exhaustive":                false,
		"tier_requested":            tier,
		"counterexample_search_only_obligations_without_answer": hunted,
	}
	if spec.Extra != nil {
		if err := spec.Extra(w, ev); err != nil {
			lines = append(lines, "BROKEN side analysis: "+err.Error())
			exit = max(exit, 2)
		}
	}
	var kf []string
	for _, k := range known {
		if k.Property == prop {
			kf = append(kf, fmt.Sprintf("%s: %s (%s)", k.Status, k.ID, k.What))
		}
	}
	ev.Coverage["known_findings_file_entries"] = kf
	if len(nativeNotes) > 0 {
		ev.Coverage["spec_validation_native"] = nativeNotes
	}
	if nativeBad && exit == 0 {
		lines = append(lines, "BROKEN: the specification layer disagrees with the engine on corpus positions but no solver counterexample was confirmed")
		exit = 2
	}
	if lemmaNote != "" {
		ev.Coverage["slider_summary_lemmas"] = lemmaNote
	}
	ev.WallS = time.Since(t0).Seconds()
	for _, l := range lines {
		fmt.Println(l)
	}
	if hunted > 0 {
		fmt.Printf("NOTE %d counterexample-search obligations beyond the claimed bound ended without an answer (no counterexample found within their time budget; those bounds are not claimed)\n", hunted)
	}
	fmt.Printf("%s %s: %d obligations, %d discharged (%d by simplifier), %d violations, %d instances, %.1fs wall (exec %.1fs, solver %.1fs)\n",
		prop, tier, ob, dis, triv, nViol, len(insts), ev.WallS, execMs/1000, solverMs/1000)
	os.MkdirAll(filepath.Join(verifDir, "evidence"), 0o755)
	data, _ := json.MarshalIndent(ev, "", " ")
	if err := os.WriteFile(filepath.Join(verifDir, "evidence", prop+".json"), data, 0o644); err != nil {
		fmt.Println("cannot write evidence:", err)
		return 2
	}
	if nViol > 0 {
		return 1 // a replayed violation is reported as such whatever else was inconclusive
	}
	if exit == 0 && ob == 0 {
		fmt.Println("BROKEN: no obligations were produced")
		return 2
	}
	return exit
}

func printInst(r *run.InstResult) {
	if r.Err != nil {
		fmt.Printf("  %-50s ERROR %v\n", r.Inst.Name(), r.Err)
		return
	}
	var bad []string
	n := 0
	for _, o := range r.Obs {
		if o.Kind == "cover" {
			if o.Verdict != "sat" {
				bad = append(bad, o.Label+"="+o.Verdict)
			}
			continue
		}
		n++
		if o.Verdict != "unsat" {
			bad = append(bad, o.Label+"="+o.Verdict+"/"+o.Replayed)
		}
	}
	fmt.Printf("  %-50s obs=%d exec=%.0fms solver=%.0fms terms=%d defs=%d %s\n", r.Inst.Name(), n, r.ExecMs, r.SolverMs, r.Terms, r.Defs, strings.Join(bad, " "))
}

// proveSliderLemmas decides, for every square and slider kind, forall occ. magic lookup == ray walk (the C12 slider
// obligations) on the current tree. Only squares whose lemma is proved may be summarised.
func proveSliderLemmas(w *run.World, nw int) (map[string]map[int]bool, string, error) {
	if w.Func("attacks", "VpH_C12_rook") == nil {
		return nil, "", fmt.Errorf("attacks harness not loaded (add \"attacks\" to Pkgs)")
	}
	lic := map[string]map[int]bool{"rook": {}, "bishop": {}}
	type job struct {
		kind string
		sq   int
	}
	jobs := make(chan job)
	var mu sync.Mutex
	var wg sync.WaitGroup
	t0 := time.Now()
	for k := 0; k < nw; k++ {
		wg.Add(1)
		go func() {
			defer wg.Done()
			pl := sym.NewPool([]string{"z3-new", "z3"}, 30000)
			defer pl.Close()
			for j := range jobs {
				r := w.RunInstance(run.Instance{Prop: "C12-lemma", Pkg: "attacks", Func: "VpH_C12_" + j.kind, Params: map[string]int64{"sq": int64(j.sq)},
					Opt: run.Options{NoVacuity: true, PanicMode: "ignore"}}, pl)
				ok := r.Err == nil
				for _, o := range r.Obs {
					if o.Kind == "assert" && o.Verdict != "unsat" {
						ok = false
					}
				}
				mu.Lock()
				lic[j.kind][j.sq] = ok
				mu.Unlock()
			}
		}()
	}
	for sq := 0; sq < 64; sq++ {
		jobs <- job{"rook", sq}
		jobs <- job{"bishop", sq}
	}
	close(jobs)
	wg.Wait()
	n := 0
	for _, m := range lic {
		for _, ok := range m {
			if ok {
				n++
			}
		}
	}
	return lic, fmt.Sprintf("%d/128 per-square lemmas (forall occ: magic lookup == ray walk) proved on this run in %.1fs; unproved squares use the exact table encoding", n, time.Since(t0).Seconds()), nil
}

func tailStr(s string, n int) string {
	if len(s) > n {
		return s[len(s)-n:]
	}
	return s
}

var fenRe = regexp.MustCompile(`[1-8pnbrqkPNBRQK]{1,8}(/[1-8pnbrqkPNBRQK]{1,8}){7} [wb] (-|[KQkq]{1,4}) (-|[a-h][36]) \d+ \d+`)

// writeCorpus collects the FEN strings of the repository's own tests and perft suite.
func writeCorpus(repoDir, tmp string) (string, int, error) {
	seen := map[string]bool{}
	var all []string
	files, _ := filepath.Glob(filepath.Join(repoDir, "*", "*_test.go"))
	epd, _ := filepath.Glob(filepath.Join(repoDir, "debug", "*.epd"))
	for _, f := range append(files, epd...) {
		data, err := os.ReadFile(f)
		if err != nil {
			return "", 0, err
		}
		for _, m := range fenRe.FindAllString(string(data), -1) {
			if !seen[m] {
				seen[m] = true
				all = append(all, m)
			}
		}
	}
	sort.Strings(all)
	fn := filepath.Join(tmp, "corpus.txt")
	return fn, len(all), os.WriteFile(fn, []byte(strings.Join(all, "\n")+"\n"), 0o644)
}
