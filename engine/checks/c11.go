package checks

import (
	vexec "vp/exec"
	"vp/run"
	"vp/sym"
)

func init() {
	Reg["C11"] = func(tier string, seed int64) *Spec {
		s := &Spec{
			Prop: "C11",
			Pkgs: []string{"board", "uci", "attacks"},
			Bounds: []string{
				"robustness: every byte string of length 0..L, L = 20 (quick) / 24 (thorough), all bytes symbolic, length symbolic; every parser loop unrolled L+2 times with an unwinding assertion; no-panic over every index/slice/shift/map site of ParseFEN and fenParser.*; thorough additionally L = 32 for the no-panic and unwinding obligations only",
				"board reuse: the same bytes (length <= L-4) parsed into a zero board and into a board holding an arbitrary earlier position give the same verdict and position",
				"piece-count gate: ARBITRARY valid position (no material bound beyond validity)",
				"position command: board.FromFEN replaced by an arbitrary (board, error) result; the board returned is an arbitrary symbolic board",
			},
			Stubs: []string{
				"fmt.Errorf/errors.New -> opaque non-nil error; fmt.Fprintf/Fprintln -> no effect",
				"board.FromFEN (only in the position-command harness) -> arbitrary (fresh symbolic board, nil) or (nil, error); strings.Join -> opaque string",
			},
			Outside: []string{
				"FEN text round trip: NOT claimed. The printer is encodable through the engine's text model (strings.Builder, strconv.Itoa, fmt %c/%d; harness VpH_C11_roundtrip, tier diagnostic) but print+parse over a buffer with symbolic offsets does not close: unknown after 60 s even for the reachability witness with a fully concrete placement (152k terms)",
				"strings longer than L bytes; the tuner's epd.Parse wrapper",
			},
		}
		L := int64(20)
		if tier == "thorough" {
			L = 24
			// longer strings: no-panic and unwinding obligations only (the counter-range assertion is unknown after
			// 600 s at 32 and 40 bytes)
			s.Instances = append(s.Instances, run.Instance{Pkg: "board", Func: "VpH_C11_robust", Params: map[string]int64{"maxlen": 32, "panics_only": 1},
				Opt: run.Options{LoopBound: 34, UnwindMode: "assert", TimeoutMs: 900000}})
		}
		s.Instances = append(s.Instances, run.Instance{Pkg: "board", Func: "VpH_C11_robust", Params: map[string]int64{"maxlen": L, "panics_only": 0},
			Opt: run.Options{LoopBound: int(L) + 2, UnwindMode: "assert", TimeoutMs: 600000}})
		s.Instances = append(s.Instances, run.Instance{Pkg: "board", Func: "VpH_C11_reuse", Params: map[string]int64{"maxlen": L - 4},
			Opt: run.Options{LoopBound: int(L) + 2, UnwindMode: "assume", PanicMode: "ignore", TimeoutMs: 600000}})
		for stm := int64(0); stm < 2; stm++ {
			s.Instances = append(s.Instances, run.Instance{Pkg: "board", Func: "VpH_C11_counts", Params: map[string]int64{"stm": stm}})
		}
		if tier == "diagnostic" {
			s.Instances = append(s.Instances, run.Instance{Pkg: "board", Func: "VpH_C11_roundtrip", Params: map[string]int64{"stm": 0, "wk": 4, "bk": 60, "mask": 0},
				Opt: run.Options{LoopBound: 70, UnwindMode: "assume", PanicMode: "ignore", TimeoutMs: 600000, Setup: func(x *vexec.Exec, w *run.World) { x.InstallTextModel() }}})
		}
		stub := func(x *vexec.Exec, w *run.World) {
			x.Stub("strings.Join", func(x *vexec.Exec, a []vexec.Val, g *sym.Term) vexec.Val { return &vexec.StringV{Const: "<joined>"} })
			symBoard := w.Func("board", "VpSymBoard")
			var stubBoard *vexec.PtrV
			theBoard := func(x *vexec.Exec, g *sym.Term) *vexec.PtrV {
				if stubBoard == nil {
					stubBoard = x.Call(symBoard, []vexec.Val{x.C.Const(8, 0)}, nil, g).(*vexec.PtrV)
					// the printer/parser pair can only express a halfmove clock up to 100
					fifty := x.C.Var(7, "fifty")
					x.Assume(x.C.Ule(fifty, x.C.Const(7, 100)))
				}
				return stubBoard
			}
			x.Stub(run.ModPath+"/uci.vpFenArgs", func(x *vexec.Exec, a []vexec.Val, g *sym.Term) vexec.Val {
				elems := make([]vexec.Val, 7)
				for i, sv := range []string{"fen", "f1", "f2", "f3", "f4", "f5", "f6"} {
					elems[i] = &vexec.StringV{Const: sv}
				}
				return x.MakeSliceOver(&vexec.ArrayV{E: elems}, 7)
			})
			ipcSel := w.Prog.MethodSets.MethodSet(w.Pkgs[run.ModPath+"/board"].Type("Board").Type()).Lookup(w.Pkgs[run.ModPath+"/board"].Pkg, "InvalidPieceCount")
			ipc := w.Prog.MethodValue(ipcSel)
			x.Stub(run.ModPath+"/uci.vpInvalid", func(x *vexec.Exec, a []vexec.Val, g *sym.Term) vexec.Val {
				// the gate's verdict on the very board the stubbed FromFEN returns
				return x.Call(ipc, []vexec.Val{x.Load(theBoard(x, g))}, nil, g)
			})
			x.Stub(run.ModPath+"/board.FromFEN", func(x *vexec.Exec, a []vexec.Val, g *sym.Term) vexec.Val {
				ok := x.C.Var(1, "fromfen_ok")
				bw := theBoard(x, g)
				res := &vexec.PtrV{}
				for _, al := range bw.Alts {
					res.Alts = append(res.Alts, vexec.PtrAlt{G: x.C.And(al.G, ok), Obj: al.Obj, Path: al.Path})
				}
				return &vexec.TupleV{E: []vexec.Val{res, &vexec.IfaceV{IsNil: ok}}}
			})
		}
		s.Instances = append(s.Instances, run.Instance{Pkg: "uci", Func: "VpH_C11_position", Opt: run.Options{Setup: stub}})
		return s
	}
}
