package checks

import (
	"math/rand"

	"golang.org/x/tools/go/ssa"

	vexec "vp/exec"
	"vp/run"
	"vp/sym"
)

// genObserver intercepts movegen.vpGenCount: runs both generator halves symbolically with move.Store.Alloc observed.
func genObserver(x *vexec.Exec, w *run.World) {
	allocName := "(*" + run.ModPath + "/move.Store).Alloc"
	genNoisy := w.Func("movegen", "GenNoisy")
	genQuiet := w.Func("movegen", "GenNotNoisy")
	storeT := w.Pkgs[run.ModPath+"/move"].Type("Store").Type()
	mkCount := func(halves ...*ssa.Function) func(x *vexec.Exec, args []vexec.Val, g *sym.Term) vexec.Val {
		return func(x *vexec.Exec, args []vexec.Val, g *sym.Term) vexec.Val {
			c := x.C
			t := args[1].(*sym.Term)
			type site struct{ g, m *sym.Term }
			var sites []site
			x.Stub(allocName, func(x *vexec.Exec, a []vexec.Val, g *sym.Term) vexec.Val {
				sites = append(sites, site{g, a[1].(*sym.Term)})
				return &vexec.PtrV{}
			})
			ms := x.NewObject("observed-store", storeT, x.Zero(storeT))
			for _, h := range halves {
				x.Call(h, []vexec.Val{ms, args[0]}, nil, g)
			}
			delete(x.Intrinsics, allocName)
			var hits []*sym.Term
			for _, s := range sites {
				h := c.And(s.g, c.Eq(s.m, t))
				if h.IsConst() && h.C == 0 {
					continue
				}
				hits = append(hits, c.ZExt(h, 64))
			}
			x.Note("emission sites observed", len(sites))
			x.Note("emission sites that can equal the target", len(hits))
			if len(hits) == 0 {
				return c.Const(64, 0)
			}
			return c.Add(hits...)
		}
	}
	x.Stub(run.ModPath+"/movegen.vpGenCount", mkCount(genNoisy, genQuiet))
	x.Stub(run.ModPath+"/movegen.vpGenCountNoisy", mkCount(genNoisy))
	x.Stub(run.ModPath+"/movegen.vpGenCountQuiet", mkCount(genQuiet))
}

func init() {
	mk := func(prop string, withSpec int64) func(tier string, seed int64) *Spec {
		return func(tier string, seed int64) *Spec {
			s := &Spec{
				Prop:          prop,
				Pkgs:          []string{"board", "movegen", "attacks"},
				SliderSummary: true,
				Bounds: []string{
					"no bound on material or on the number of moves: ARBITRARY valid position (64 symbolic cells, castling rights, e.p. target), case split on (side to move, from-square) = 128 instances, the to-square (6 bits) and promotion bits (3 bits) symbolic in each",
					"bit-scan loops of the generator re-indexed by bit position (64 iterations each, exact), no unrolling bound",
				},
				Stubs: []string{
					"move.Store.Alloc -> observer recording (path guard, emitted encoding); the store's own bookkeeping is covered in C16",
					"attacks.RookMoves/BishopMoves -> ray-walk specification per square, licensed by re-proving the C12 lemma on this run",
				},
				Assumptions: []string{"validity predicate VpValid; bit 15 of the storage word clear (outside the domain)"},
			}
			for stm := int64(0); stm < 2; stm++ {
				for from := int64(0); from < 64; from++ {
					s.Instances = append(s.Instances, run.Instance{Pkg: "movegen", Func: "VpH_C05",
						Params: map[string]int64{"stm": stm, "from": from, "with_spec": withSpec}, Opt: run.Options{Setup: genObserver}})
				}
			}
			return s
		}
	}
	Reg["C05"] = func(tier string, seed int64) *Spec {
		s := mk("C05", 0)(tier, seed)
		if tier != "thorough" {
			// quick: a seeded third of the from-squares per side plus the king/rook/pawn home squares
			s.Instances = sampleFrom(s.Instances, seed, 10)
			s.Bounds = append(s.Bounds, "quick tier: 10 from-squares (both sides each; always e1, e8, a1, h8, e2, e7, d5, e4 plus 2 seeded by VERIF_SEED); thorough: all 64")
		}
		return s
	}
	Reg["C01"] = func(tier string, seed int64) *Spec {
		s := mk("C01", 1)(tier, seed)
		if tier != "thorough" {
			s.Instances = sampleFrom(s.Instances, seed+1, 9)
		}
		s.Native = []NativeRun{{"movegen", "VpV_Corpus"}}
		s.Bounds = append(s.Bounds,
			"generated set: per (side, from-square) case, symbolic to-square and promotion bits: emitted at most once, and emitted iff pseudo-legal by the mailbox FIDE specification (castling conditions included); quick: 9 from-squares (e1, e8, a1, h8, e2, e7, d5, e4 and one seeded) for both sides, thorough: all 64",
			"legality filter: per concrete (side, from, to, promotion) case from an arbitrary valid position: MakeMove followed by InCheck rejects exactly the moves after which the mover's king is attacked in the specification's successor; quick: seeded sample of the case split, thorough: eight times the quick sampling rates (tier `exhaustive`: all 3760 cases)")
		s.Assumptions = append(s.Assumptions, "FIDE legality = pseudo-legal by VpPseudoLegal and own king not attacked in VpMakeSpec's successor (harness/board/spec.go); the specification layer is compared natively with the engine on the repo's test positions on every run")
		s.Instances = append(s.Instances, stepInstancesDiv("VpH_C01_filter", tier, seed, 2, 1, 1, nil)...)
		s.Instances = append(s.Instances, castlesInstances()...)
		s.Instances = append(s.Instances, doublePushInstances("VpH_C01_eptarget")...)
		s.Bounds = append(s.Bounds, "positions reached by playing moves: the castling-rights update for EVERY (from, to, promotion bits) at once (symbolic move) from an arbitrary valid position, so that a right never outlives its king or rook leaving/being captured on the home square; and, for all 16 double pawn pushes, the en-passant target is recorded iff a legal en-passant capture exists in the successor; the other clauses of successor validity are C02's one-step obligations")
		return s
	}
}

// sampleFrom keeps n from-squares per side (always e1/e8, a1, h8, e2, e7 and the en-passant ranks d5, e4 when present)
// of a (stm, from) case split.
func sampleFrom(in []run.Instance, seed int64, n int) []run.Instance {
	rng := rand.New(rand.NewSource(seed + 7))
	keep := map[int64]bool{4: true, 60: true, 0: true, 63: true, 12: true, 52: true, 35: true, 28: true}
	for len(keep) < n {
		keep[int64(rng.Intn(64))] = true
	}
	var out []run.Instance
	for _, i := range in {
		if keep[i.Params["from"]] {
			out = append(out, i)
		}
	}
	return out
}
