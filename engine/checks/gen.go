package checks

import (
	vexec "vp/exec"
	"vp/run"
	"vp/sym"
)

// genObserver intercepts movegen.vpGenCount: runs both generator halves symbolically with move.Store.Alloc observed.
func genObserver(x *vexec.Exec, w *run.World) {
	allocName := "(*" + run.ModPath + "/move.Store).Alloc"
	genNoisy := w.Func("movegen", "GenNoisy")
	genQuiet := w.Func("movegen", "GenNotNoisy")
	storeT := w.Pkgs[run.ModPath+"/move"].Type("Store").Type()
	x.Stub(run.ModPath+"/movegen.vpGenCount", func(x *vexec.Exec, args []vexec.Val, g *sym.Term) vexec.Val {
		c := x.C
		t := args[1].(*sym.Term)
		type site struct{ g, m *sym.Term }
		var sites []site
		x.Stub(allocName, func(x *vexec.Exec, a []vexec.Val, g *sym.Term) vexec.Val {
			sites = append(sites, site{g, a[1].(*sym.Term)})
			return &vexec.PtrV{}
		})
		ms := x.NewObject("observed-store", storeT, x.Zero(storeT))
		x.Call(genNoisy, []vexec.Val{ms, args[0]}, nil, g)
		x.Call(genQuiet, []vexec.Val{ms, args[0]}, nil, g)
		delete(x.Intrinsics, allocName)
		var hits []*sym.Term
		for _, s := range sites {
			h := c.And(s.g, c.Eq(s.m, t))
			if h.IsConst() && h.C == 0 {
				continue
			}
			hits = append(hits, c.ZExt(h, 64))
		}
		x.Note("emission sites observed", len(sites))
		x.Note("emission sites that can equal the target", len(hits))
		if len(hits) == 0 {
			return c.Const(64, 0)
		}
		return c.Add(hits...)
	})
}

func init() {
	mk := func(prop string, withSpec int64) func(tier string, seed int64) *Spec {
		return func(tier string, seed int64) *Spec {
			s := &Spec{
				Prop:          prop,
				Pkgs:          []string{"board", "movegen", "attacks"},
				SliderSummary: true,
				Bounds: []string{
					"no bound on material or on the number of moves: ARBITRARY valid position (64 symbolic cells, castling rights, e.p. target), case split on (side to move, from-square) = 128 instances, the to-square (6 bits) and promotion bits (3 bits) symbolic in each",
					"bit-scan loops of the generator re-indexed by bit position (64 iterations each, exact), no unrolling bound",
				},
				Stubs: []string{
					"move.Store.Alloc -> observer recording (path guard, emitted encoding); the store's own bookkeeping is covered in C16",
					"attacks.RookMoves/BishopMoves -> ray-walk specification per square, licensed by re-proving the C12 lemma on this run",
				},
				Assumptions: []string{"validity predicate VpValid; bit 15 of the storage word clear (outside the domain)"},
			}
			for stm := int64(0); stm < 2; stm++ {
				for from := int64(0); from < 64; from++ {
					s.Instances = append(s.Instances, run.Instance{Pkg: "movegen", Func: "VpH_C05",
						Params: map[string]int64{"stm": stm, "from": from, "with_spec": withSpec}, Opt: run.Options{Setup: genObserver}})
				}
			}
			return s
		}
	}
	Reg["C05"] = mk("C05", 0)
}
