package checks

import (
	"encoding/json"
	"fmt"
	"os"
	"path/filepath"
	"strings"

	"vp/run"
)

// ReplayCmd re-runs a saved counterexample tape natively against /repo's current tree.
// Exit 1 if the violation reproduces, 0 if the harness completes without failure.
func ReplayCmd(tape, repoDir, verifDir string) int {
	data, err := os.ReadFile(tape)
	if err != nil {
		fmt.Println(err)
		return 2
	}
	var t struct {
		Harness  string `json:"harness"`
		Property string `json:"property"`
		Label    string `json:"label"`
	}
	if err := json.Unmarshal(data, &t); err != nil {
		fmt.Println(err)
		return 2
	}
	parts := strings.SplitN(t.Harness, ".", 2)
	if len(parts) != 2 {
		fmt.Println("bad tape: harness field")
		return 2
	}
	w, err := run.Load(repoDir, filepath.Join(verifDir, "harness"), []string{parts[0]}, "")
	if err != nil {
		fmt.Println("LOAD FAILED:", err)
		return 2
	}
	defer w.Close()
	out, _ := w.ReplayTape(parts[0], parts[1], tape)
	fmt.Print(out)
	switch {
	case strings.Contains(out, "VP-ASSERT-FAIL"), strings.Contains(out, "panic:"):
		fmt.Printf("VIOLATION property=%s replay=%s\n", t.Property, tape)
		return 1
	case strings.Contains(out, "VP-REPLAY-COMPLETED"):
		fmt.Println("replay completed without violation")
		return 0
	}
	return 2
}
