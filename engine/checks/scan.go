package checks

import (
	"fmt"
	"go/types"
	"sort"
	"strings"

	"golang.org/x/tools/go/ssa"

	"vp/run"
)

// scanSearchFacts records frame conditions that complement the C08 solver obligations (reported, not solver-decided):
// which functions write Counters.Nodes, and which functions of the engine packages call into package time.
func scanSearchFacts(w *run.World, ev *Evidence) error {
	writers := map[string]bool{}
	timeCallers := map[string]bool{}
	pkgs := []string{"search", "picker", "heur", "transp", "eval", "movegen", "board", "move", "attacks", "stack"}
	for _, pd := range pkgs {
		p := w.Pkgs[run.ModPath+"/"+pd]
		if p == nil {
			continue
		}
		var fns []*ssa.Function
		for _, m := range p.Members {
			switch m := m.(type) {
			case *ssa.Function:
				fns = append(fns, m)
			case *ssa.Type:
				for _, t := range []types.Type{m.Type(), types.NewPointer(m.Type())} {
					ms := w.Prog.MethodSets.MethodSet(t)
					for i := 0; i < ms.Len(); i++ {
						if f := w.Prog.MethodValue(ms.At(i)); f != nil {
							fns = append(fns, f)
						}
					}
				}
			}
		}
		seen := map[*ssa.Function]bool{}
		var visit func(f *ssa.Function)
		visit = func(f *ssa.Function) {
			if f == nil || seen[f] || f.Blocks == nil {
				return
			}
			seen[f] = true
			if strings.Contains(f.String(), "Vp") || strings.Contains(f.String(), "vp") {
				return // harness code
			}
			for _, b := range f.Blocks {
				for _, ins := range b.Instrs {
					switch ins := ins.(type) {
					case *ssa.Store:
						if fa, ok := ins.Addr.(*ssa.FieldAddr); ok {
							st := fa.X.Type().Underlying().(*types.Pointer).Elem()
							if n, ok := st.(*types.Named); ok && n.Obj().Name() == "Counters" {
								if n.Underlying().(*types.Struct).Field(fa.Field).Name() == "Nodes" {
									writers[f.String()] = true
								}
							}
						}
					case ssa.CallInstruction:
						if c := ins.Common().StaticCallee(); c != nil && c.Pkg != nil && c.Pkg.Pkg.Path() == "time" {
							timeCallers[f.String()] = true
						}
					}
				}
			}
			for _, a := range f.AnonFuncs {
				visit(a)
			}
		}
		for _, f := range fns {
			visit(f)
		}
	}
	list := func(m map[string]bool) []string {
		var out []string
		for k := range m {
			out = append(out, strings.ReplaceAll(k, run.ModPath+"/", ""))
		}
		sort.Strings(out)
		return out
	}
	ev.Coverage["ssa_scan_writers_of_Counters.Nodes"] = list(writers)
	ev.Coverage["ssa_scan_callers_of_package_time"] = list(timeCallers)
	ev.Coverage["ssa_scan_note"] = fmt.Sprintf("static scan of %d engine packages on this run's SSA: the node counter is written only by the functions listed; package time is called only by the functions listed (search results cannot depend on the clock elsewhere)", len(pkgs))
	return nil
}
