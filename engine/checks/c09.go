package checks

import (
	"math/rand"

	"vp/run"
)

func init() {
	Reg["C09"] = func(tier string, seed int64) *Spec {
		s := &Spec{
			Prop:          "C09",
			Pkgs:          []string{"board", "movegen", "attacks"},
			SliderSummary: true,
			Native:        []NativeRun{{"movegen", "VpV_Corpus"}},
			Bounds: []string{
				"no bound on material: ARBITRARY valid position (64 symbolic cells, castling, e.p.), case split on (side to move, square of the mover's king); thorough: all 128 cases; quick: king on a1, e1, e8, h8, d3, g4, e6 plus one seeded (VERIF_SEED) square, both colours (16 cases)",
				"bit-scan loops of IsCheckmate/IsStalemate/Attackers/Block/IsAttacked re-indexed by bit position (exact)",
			},
			Stubs: []string{"attacks.RookMoves/BishopMoves -> ray-walk specification per square, licensed by re-proving the C12 lemma on this run"},
			Assumptions: []string{
				"validity predicate VpValid; en-passant target recorded only if an en-passant capture is legal (the property's normalisation)",
				"oracle: independent mailbox specification of 'the mover has a legal move' (harness/board/haslegal.go), itself compared natively with the engine's generator+filter on the repo's test positions on every run",
			},
		}
		kings := map[int64]bool{}
		if tier == "thorough" {
			for k := int64(0); k < 64; k++ {
				kings[k] = true
			}
		} else {
			for _, k := range []int64{0, 4, 60, 63, 19, 30, 44} {
				kings[k] = true
			}
			rng := rand.New(rand.NewSource(seed + 99))
			for len(kings) < 8 {
				kings[int64(rng.Intn(64))] = true
			}
		}
		for k := int64(0); k < 64; k++ {
			if !kings[k] {
				continue
			}
			for stm := int64(0); stm < 2; stm++ {
				s.Instances = append(s.Instances, run.Instance{Pkg: "board", Func: "VpH_C09", Params: map[string]int64{"stm": stm, "king": k}, Opt: run.Options{TimeoutMs: 300000}})
			}
		}
		return s
	}
}
