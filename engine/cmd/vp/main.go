// Command vp runs the solver-based checks.
package main

import (
	"flag"
	"fmt"
	"os"
	"strconv"

	"vp/checks"
)

func main() {
	// go/packages and the native replays shell out to `go`; the repository needs go >= 1.25.4
	os.Setenv("PATH", "/opt/veriftools/go1.26.8/bin:"+os.Getenv("PATH"))
	os.Setenv("GOTOOLCHAIN", "local")
	os.Setenv("GOFLAGS", "-mod=mod")
	os.Setenv("GOPROXY", "off")
	os.Setenv("GOSUMDB", "off")
	if len(os.Args) < 2 {
		fmt.Println("usage: vp check <id> [--tier quick|thorough] | vp replay <tape.json> | vp list")
		os.Exit(2)
	}
	switch os.Args[1] {
	case "list":
		for id := range checks.Reg {
			fmt.Println(id)
		}
	case "check":
		fs := flag.NewFlagSet("check", flag.ExitOnError)
		tier := fs.String("tier", os.Getenv("VERIF_TIER"), "quick or thorough")
		repo := fs.String("repo", "/repo", "repository working tree")
		verif := fs.String("verif", "/verif", "verification directory")
		verbose := fs.Bool("v", false, "verbose")
		only := fs.String("only", "", "debug: run only instances whose name contains this substring (evidence is still written)")
		tmo := fs.Int("timeout", 0, "debug: per-query solver timeout in ms")
		if len(os.Args) < 3 {
			fmt.Println("usage: vp check <id>")
			os.Exit(2)
		}
		id := os.Args[2]
		fs.Parse(os.Args[3:])
		if *tier == "" {
			*tier = "quick"
		}
		seed, _ := strconv.ParseInt(os.Getenv("VERIF_SEED"), 10, 64)
		checks.Only = *only
		checks.TimeoutOverride = *tmo
		os.Exit(checks.Run(id, *tier, seed, *repo, *verif, *verbose))
	case "exec": // debug: vp exec <pkgdir> <Func> [param=value ...]
		params := map[string]int64{}
		for _, kv := range os.Args[4:] {
			var k string
			var v int64
			for i := range kv {
				if kv[i] == '=' {
					k = kv[:i]
					v, _ = strconv.ParseInt(kv[i+1:], 10, 64)
				}
			}
			params[k] = v
		}
		os.Exit(checks.ExecOne(os.Args[2], os.Args[3], params, envOr("VP_REPO", "/repo"), "/verif"))
	case "replay":
		if len(os.Args) < 3 {
			fmt.Println("usage: vp replay <tape.json>")
			os.Exit(2)
		}
		os.Exit(checks.ReplayCmd(os.Args[2], envOr("VP_REPO", "/repo"), "/verif"))
	default:
		fmt.Println("unknown command", os.Args[1])
		os.Exit(2)
	}
}

// envOr: debug override of the repository path for `vp exec` / `vp replay` (registered checks always use /repo).
func envOr(k, d string) string {
	if v := os.Getenv(k); v != "" {
		return v
	}
	return d
}
