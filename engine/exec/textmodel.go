package exec

// Text model: strings.Builder, strconv.Itoa and the %c/%d subset of fmt.Sprintf/Fprintf as engine-side contracts, so
// that printers built on them (Board.FEN) produce a symbolic string of symbolic length instead of being opaque.
// Installed only by harnesses that ask for it (InstallTextModel); everywhere else formatting stays a no-op.
//
// A Builder's buffer is a fixed-capacity byte array object (textCap) with a symbolic length kept in the Builder's own
// buf slice header; a write stores byte i of the operand at index len+i under the guard "i < len(operand)".
// Exceeding textCap is recorded as a model panic (outside the model), never silently dropped.

import (
	"go/types"

	"vp/sym"
)

const textCap = 128

// constLeafMax is the largest value an ite-tree over constants can take (ok=false if t is not such a tree).
func constLeafMax(t *Term, depth int) (uint64, bool) {
	switch {
	case t.IsConst():
		return t.C, true
	case t.Op == sym.OIte && depth < 64:
		a, ok1 := constLeafMax(t.Args[1], depth+1)
		b, ok2 := constLeafMax(t.Args[2], depth+1)
		if ok1 && ok2 {
			return max(a, b), true
		}
	}
	return 0, false
}

// ubound is an upper bound of the unsigned value of t.
func ubound(t *Term) uint64 {
	if m, ok := constLeafMax(t, 0); ok {
		return m
	}
	return t.UMax()
}

// symBytes is a string under construction: byte terms with the guards under which they exist ("position i holds b").
type symText struct {
	b   []*Term // byte i (8 bit)
	len *Term   // 64-bit length, <= len(b)
}

func (x *Exec) textOfString(s *StringV) symText {
	c := x.C
	if !s.IsSym {
		t := symText{len: x.i64(int64(len(s.Const)))}
		for i := 0; i < len(s.Const); i++ {
			t.b = append(t.b, c.Const(8, uint64(s.Const[i])))
		}
		return t
	}
	sl := s.S
	n := ubound(sl.Len)
	if n > textCap {
		fail("text model: string of unbounded symbolic length")
	}
	t := symText{len: sl.Len}
	for i := 0; i < int(n); i++ {
		t.b = append(t.b, x.sliceElem(sl, x.i64(int64(i))).(*Term))
	}
	return t
}

// stringOfText materialises a symText as a symbolic string value over a fresh array object.
func (x *Exec) stringOfText(t symText) *StringV {
	if t.len.IsConst() {
		allConst := true
		for i := 0; i < int(t.len.C); i++ {
			if !t.b[i].IsConst() {
				allConst = false
			}
		}
		if allConst {
			bs := make([]byte, t.len.C)
			for i := range bs {
				bs[i] = byte(t.b[i].C)
			}
			return &StringV{Const: string(bs)}
		}
	}
	n := len(t.b)
	if n == 0 {
		return &StringV{Const: ""}
	}
	a := &ArrayV{E: make([]Val, n)}
	for i := 0; i < n; i++ {
		a.E[i] = t.b[i]
	}
	o := x.newObj("text", types.NewArray(types.Typ[types.Byte], int64(n)), a)
	return &StringV{IsSym: true, S: &SliceV{Obj: o, Off: x.i64(0), Len: t.len, Cap: x.i64(int64(n))}}
}

// decimalText is the decimal representation of the non-negative value v.
func (x *Exec) decimalText(v *Term) symText {
	c := x.C
	if v.K0>>(v.W-1)&1 == 0 && v.W > 1 {
		// sign bit not known to be clear
		if _, ok := constLeafMax(v, 0); !ok {
			fail("text model: %%d of a value that may be negative")
		}
	}
	ub := ubound(v)
	if ub > 999999 {
		fail("text model: %%d of a value with bound %d (at most 6 digits are modelled) w=%d op=%d k0=%x", ub, v.W, v.Op, v.K0)
	}
	// work in 20 bits
	var w uint8 = 20
	var vv *Term
	if v.W >= w {
		vv = c.Extract(w-1, 0, v)
	} else {
		vv = c.ZExt(v, w)
	}
	nd := 1
	for p := uint64(10); p <= ub; p *= 10 {
		nd++
	}
	pow := []uint64{1, 10, 100, 1000, 10000, 100000}
	// digit k counted from the most significant of an nd-digit rendering with leading zeros
	digit := func(k int) *Term { // k = 0 is 10^(nd-1)
		p := pow[nd-1-k]
		q := c.UDiv(vv, c.Const(w, p))
		d := c.URem(q, c.Const(w, 10))
		return c.Add(c.Extract(7, 0, d), c.Const(8, '0'))
	}
	// actual number of digits
	length := x.i64(1)
	for k := 1; k < nd; k++ {
		length = c.Add(length, c.ZExt(c.Not(c.Ult(vv, c.Const(w, pow[k]))), 64))
	}
	// byte i of the result = digit (nd - length + i)
	t := symText{len: length}
	for i := 0; i < nd; i++ {
		var b *Term = c.Const(8, '0')
		// for each possible length L (1..nd): if length == L then digit(nd-L+i) (when nd-L+i < nd)
		for L := nd; L >= 1; L-- {
			k := nd - L + i
			if k >= nd {
				continue
			}
			b = c.Ite(c.Eq(length, x.i64(int64(L))), digit(k), b)
		}
		t.b = append(t.b, b)
	}
	return t
}

func concatText(x *Exec, parts []symText) symText {
	c := x.C
	// all-constant lengths: plain concatenation
	allConst := true
	for _, p := range parts {
		if !p.len.IsConst() {
			allConst = false
		}
	}
	if allConst {
		out := symText{len: x.i64(0)}
		n := 0
		for _, p := range parts {
			out.b = append(out.b, p.b[:p.len.C]...)
			n += int(p.len.C)
		}
		out.len = x.i64(int64(n))
		return out
	}
	// general: place every byte at its symbolic offset
	total := 0
	for _, p := range parts {
		total += len(p.b)
	}
	out := symText{len: x.i64(0)}
	out.b = make([]*Term, total)
	for i := range out.b {
		out.b[i] = c.Const(8, 0)
	}
	off := x.i64(0)
	for _, p := range parts {
		for i, b := range p.b {
			inPart := c.Ult(x.i64(int64(i)), p.len)
			pos := c.Add(off, x.i64(int64(i)))
			for j := range out.b {
				hit := c.And(inPart, c.Eq(pos, x.i64(int64(j))))
				if hit.IsConst() && hit.C == 0 {
					continue
				}
				out.b[j] = c.Ite(hit, b, out.b[j])
			}
		}
		off = c.Add(off, p.len)
	}
	out.len = off
	return out
}

// formatText renders the %c / %d / %% / literal subset of a constant format string.
func (x *Exec) formatText(format string, args []Val) symText {
	c := x.C
	var parts []symText
	lit := func(s string) {
		if s != "" {
			parts = append(parts, x.textOfString(&StringV{Const: s}))
		}
	}
	arg := 0
	next := func() *Term {
		if arg >= len(args) {
			fail("text model: format %q has more verbs than arguments", format)
		}
		v := args[arg]
		arg++
		if iv, ok := v.(*IfaceV); ok {
			v = iv.V
		}
		t, ok := v.(*Term)
		if !ok {
			fail("text model: format %q with a non-integer argument", format)
		}
		return t
	}
	cur := ""
	for i := 0; i < len(format); i++ {
		if format[i] != '%' {
			cur += string(format[i])
			continue
		}
		i++
		if i >= len(format) {
			fail("text model: dangling %% in %q", format)
		}
		switch format[i] {
		case '%':
			cur += "%"
		case 'c':
			lit(cur)
			cur = ""
			t := next()
			var b *Term
			if t.W >= 8 {
				b = c.Extract(7, 0, t)
			} else {
				b = c.ZExt(t, 8)
			}
			parts = append(parts, symText{b: []*Term{b}, len: x.i64(1)})
		case 'd':
			lit(cur)
			cur = ""
			parts = append(parts, x.decimalText(next()))
		default:
			fail("text model: verb %%%c in %q is not modelled", format[i], format)
		}
	}
	lit(cur)
	if len(parts) == 0 {
		return symText{len: x.i64(0)}
	}
	return concatText(x, parts)
}

// InstallTextModel registers the contracts.
func (x *Exec) InstallTextModel() {
	c := x.C
	// the Builder's fields: addr, buf
	bufField := 1
	write := func(x *Exec, p *PtrV, t symText, g *Term) {
		fp := x.ExtendField(p, bufField)
		cur, _ := x.Load(fp).(*SliceV)
		if cur == nil || cur.Obj == nil {
			at := types.NewArray(types.Typ[types.Byte], textCap)
			na := x.zero(at)
			if tv, ok := na.(*TableV); ok {
				na = x.tableToArray(tv)
			}
			o := x.newObj("builder", at, na)
			cur = &SliceV{Obj: o, Off: x.i64(0), Len: x.i64(0), Cap: x.i64(textCap)}
		}
		need := c.Add(cur.Len, t.len)
		fits := c.Ule(need, x.i64(textCap))
		if !(fits.IsConst() && fits.C == 1) {
			x.addPanic(c.And(g, c.Not(fits)), "model: strings.Builder beyond the modelled capacity", "text model")
		}
		for i, b := range t.b {
			gi := c.And(g, c.Ult(x.i64(int64(i)), t.len))
			if gi.IsConst() && gi.C == 0 {
				continue
			}
			path := []PathEl{{Field: -1, Idx: c.Add(cur.Len, x.i64(int64(i)))}}
			cur.Obj.V = x.storePath(cur.Obj.V, path, b, gi)
		}
		ns := &SliceV{Obj: cur.Obj, Off: cur.Off, Len: c.Ite(g, need, cur.Len), Cap: cur.Cap}
		x.Store(fp, ns, c.True)
	}
	okRes := func(n *Term) Val { return &TupleV{E: []Val{n, &IfaceV{IsNil: c.True}}} }
	x.Stub("(*strings.Builder).WriteString", func(x *Exec, a []Val, g *Term) Val {
		t := x.textOfString(a[1].(*StringV))
		write(x, a[0].(*PtrV), t, g)
		return okRes(t.len)
	})
	x.Stub("(*strings.Builder).WriteByte", func(x *Exec, a []Val, g *Term) Val {
		write(x, a[0].(*PtrV), symText{b: []*Term{a[1].(*Term)}, len: x.i64(1)}, g)
		return &IfaceV{IsNil: c.True}
	})
	x.Stub("(*strings.Builder).String", func(x *Exec, a []Val, g *Term) Val {
		cur, _ := x.Load(x.ExtendField(a[0].(*PtrV), bufField)).(*SliceV)
		if cur == nil || cur.Obj == nil {
			return &StringV{Const: ""}
		}
		return &StringV{IsSym: true, S: cur}
	})
	x.Stub("(*strings.Builder).Len", func(x *Exec, a []Val, g *Term) Val {
		cur, _ := x.Load(x.ExtendField(a[0].(*PtrV), bufField)).(*SliceV)
		if cur == nil || cur.Obj == nil {
			return x.i64(0)
		}
		return cur.Len
	})
	x.Stub("strconv.Itoa", func(x *Exec, a []Val, g *Term) Val {
		return x.stringOfText(x.decimalText(a[0].(*Term)))
	})
	variadic := func(x *Exec, v Val) []Val {
		sl, ok := v.(*SliceV)
		if !ok || sl.Obj == nil {
			return nil
		}
		if !sl.Len.IsConst() {
			fail("text model: symbolic number of format arguments")
		}
		var out []Val
		for i := 0; i < int(sl.Len.C); i++ {
			out = append(out, x.sliceElem(sl, x.i64(int64(i))))
		}
		return out
	}
	x.Stub("fmt.Sprintf", func(x *Exec, a []Val, g *Term) Val {
		f := a[0].(*StringV)
		if f.IsSym {
			fail("text model: symbolic format string")
		}
		return x.stringOfText(x.formatText(f.Const, variadic(x, a[1])))
	})
	x.Stub("fmt.Fprintf", func(x *Exec, a []Val, g *Term) Val {
		f := a[1].(*StringV)
		if f.IsSym {
			fail("text model: symbolic format string")
		}
		w, ok := a[0].(*IfaceV)
		if !ok {
			fail("text model: Fprintf to an unknown writer")
		}
		p, ok := w.V.(*PtrV)
		if !ok || w.Typ == nil || w.Typ.String() != "*strings.Builder" {
			fail("text model: Fprintf to a writer that is not a *strings.Builder (%v)", w.Typ)
		}
		t := x.formatText(f.Const, variadic(x, a[2]))
		write(x, p, t, g)
		return okRes(t.len)
	})
}
