package exec

import (
	"fmt"
	"go/types"
	"strconv"

	"vp/sym"

	"golang.org/x/tools/go/ssa"
)

const vpPkg = "github.com/paulsonkoly/chess-3/vp."

// Assertion is a harness assertion: it is violated if Assumes[:NAssume] && !Panics[:NPanic] && Bad is satisfiable.
type Assertion struct {
	Label   string
	G       *Term // path guard
	Bad     *Term // G && !cond
	NAssume int
	NPanic  int
	NUnwind int
	Pos     string
}

type CoverPoint struct {
	Label   string
	G       *Term
	NAssume int
}

// HarnessState collects what the vp.* calls of a harness produce.
type HarnessState struct {
	Params  map[string]int64
	Assumes []*Term
	Asserts []Assertion
	Covers  []CoverPoint
	VarW    map[string]uint8
}

func (x *Exec) Zero(t types.Type) Val { return x.zero(t) }

// MakeSliceOver wraps an array value into a fresh object and returns a slice over all of it.
func (x *Exec) MakeSliceOver(arr Val, n int) *SliceV {
	o := x.newObj("slice", nil, arr)
	return &SliceV{Obj: o, Off: x.i64(0), Len: x.i64(int64(n)), Cap: x.i64(int64(n))}
}

// NewObject allocates an object holding v and returns a pointer to it.
func (x *Exec) NewObject(name string, t types.Type, v Val) *PtrV {
	return ptrTo(x.newObj(name, t, v), x.C.True)
}

func constStr(v Val) string {
	s, ok := v.(*StringV)
	if !ok || s.IsSym {
		fail("vp: name/label argument must be a constant string")
	}
	return s.Const
}

func constInt(v Val, what string) int64 {
	t, ok := v.(*Term)
	if !ok || !t.IsConst() {
		fail("vp: %s must be concrete", what)
	}
	return int64(t.C)
}

func (x *Exec) nondet(name string, n int64) *Term {
	if n < 1 || n > 64 {
		fail("vp.Bits: width %d", n)
	}
	v := x.C.Var(uint8(n), name)
	x.H.VarW[name] = uint8(n)
	return x.C.ZExt(v, 64)
}

// InstallVP registers the harness primitives and the standard-library intrinsics.
func (x *Exec) InstallVP(params map[string]int64) {
	x.H = &HarnessState{Params: params, VarW: map[string]uint8{}}
	in := x.Intrinsics
	c := x.C
	in[vpPkg+"load"] = func(x *Exec, f *frame, call *ssa.CallCommon, a []Val, g *Term) Val { return nil }
	in[vpPkg+"Bits"] = func(x *Exec, f *frame, call *ssa.CallCommon, a []Val, g *Term) Val {
		return x.nondet(constStr(a[0]), constInt(a[1], "width"))
	}
	in[vpPkg+"BitsI"] = func(x *Exec, f *frame, call *ssa.CallCommon, a []Val, g *Term) Val {
		return x.nondet(constStr(a[0])+"["+strconv.FormatInt(constInt(a[1], "index"), 10)+"]", constInt(a[2], "width"))
	}
	in[vpPkg+"Param"] = func(x *Exec, f *frame, call *ssa.CallCommon, a []Val, g *Term) Val {
		name := constStr(a[0])
		v, ok := x.H.Params[name]
		if !ok {
			fail("vp.Param(%q): parameter not supplied by the driver", name)
		}
		return x.i64(v)
	}
	in[vpPkg+"Assume"] = func(x *Exec, f *frame, call *ssa.CallCommon, a []Val, g *Term) Val {
		x.H.Assumes = append(x.H.Assumes, c.Or(c.Not(g), a[0].(*Term)))
		if g.IsConst() && g.C == 1 {
			x.noteKnown(a[0].(*Term), true)
		}
		return nil
	}
	in[vpPkg+"Assert"] = func(x *Exec, f *frame, call *ssa.CallCommon, a []Val, g *Term) Val {
		bad := c.And(g, c.Not(a[0].(*Term)))
		x.H.Asserts = append(x.H.Asserts, Assertion{Label: constStr(a[1]), G: g, Bad: bad,
			NAssume: len(x.H.Assumes), NPanic: len(x.Panics), NUnwind: len(x.Unwinds), Pos: x.pos(call.Pos(), f.fn)})
		return nil
	}
	in[vpPkg+"Cover"] = func(x *Exec, f *frame, call *ssa.CallCommon, a []Val, g *Term) Val {
		x.H.Covers = append(x.H.Covers, CoverPoint{Label: constStr(a[0]), G: g, NAssume: len(x.H.Assumes)})
		return nil
	}
	in[vpPkg+"Native"] = func(x *Exec, f *frame, call *ssa.CallCommon, a []Val, g *Term) Val { return c.False }
	in[vpPkg+"Done"] = func(x *Exec, f *frame, call *ssa.CallCommon, a []Val, g *Term) Val { return nil }
	in[vpPkg+"Pack64"] = func(x *Exec, f *frame, call *ssa.CallCommon, a []Val, g *Term) Val {
		arr := x.Load(a[0].(*PtrV)).(*ArrayV)
		parts := make([]*Term, 64)
		for i := 0; i < 64; i++ {
			parts[63-i] = arr.E[i].(*Term)
		}
		return c.Concat(parts...)
	}

	// math/bits
	in["math/bits.TrailingZeros64"] = func(x *Exec, f *frame, call *ssa.CallCommon, a []Val, g *Term) Val {
		return c.Ctz(a[0].(*Term), 64)
	}
	in["math/bits.LeadingZeros64"] = func(x *Exec, f *frame, call *ssa.CallCommon, a []Val, g *Term) Val {
		return c.Clz(a[0].(*Term), 64)
	}
	in["math/bits.Len64"] = func(x *Exec, f *frame, call *ssa.CallCommon, a []Val, g *Term) Val {
		return c.Sub(c.Const(64, 64), c.Clz(a[0].(*Term), 64))
	}
	in["math/bits.OnesCount64"] = func(x *Exec, f *frame, call *ssa.CallCommon, a []Val, g *Term) Val {
		return c.Popcount(a[0].(*Term), 64)
	}
	in["math/bits.ReverseBytes64"] = func(x *Exec, f *frame, call *ssa.CallCommon, a []Val, g *Term) Val {
		t := a[0].(*Term)
		parts := make([]*Term, 8)
		for i := 0; i < 8; i++ {
			parts[i] = c.Extract(uint8(8*i+7), uint8(8*i), t)
		}
		return c.Concat(parts...)
	}

	// errors and formatting: opaque non-nil errors, formatting has no effect
	opaqueErr := func(x *Exec, f *frame, call *ssa.CallCommon, a []Val, g *Term) Val {
		return &IfaceV{IsNil: c.False}
	}
	in["errors.New"] = opaqueErr
	in["fmt.Errorf"] = opaqueErr
	in["fmt.Sprintf"] = func(x *Exec, f *frame, call *ssa.CallCommon, a []Val, g *Term) Val {
		return &StringV{Const: "<formatted>"}
	}
	in["fmt.Sprint"] = in["fmt.Sprintf"]
	noOut := func(x *Exec, f *frame, call *ssa.CallCommon, a []Val, g *Term) Val {
		return &TupleV{E: []Val{x.i64(0), &IfaceV{IsNil: c.True}}}
	}
	in["fmt.Fprintf"] = noOut
	in["fmt.Fprintln"] = noOut
	in["fmt.Fprint"] = noOut
	in["fmt.Printf"] = noOut
	in["fmt.Println"] = noOut
}

// Stub registers an intrinsic under a function's full name.
func (x *Exec) Stub(name string, fn func(x *Exec, args []Val, g *Term) Val) {
	x.Intrinsics[name] = func(x *Exec, f *frame, call *ssa.CallCommon, a []Val, g *Term) Val { return fn(x, a, g) }
}

// CallFunc runs a function value obtained from the program (used by drivers to start a harness).
func (x *Exec) Run(fn *ssa.Function) (err error) {
	defer func() {
		if r := recover(); r != nil {
			if ee, ok := r.(*ExecError); ok {
				err = ee
				return
			}
			panic(r)
		}
	}()
	if len(fn.Params) != 0 {
		return fmt.Errorf("harness %s must take no parameters", fn.String())
	}
	x.Call(fn, nil, nil, x.C.True)
	return nil
}

// FakeSlice is a slice header of (possibly symbolic) length n over a one-element dummy object; only len/cap may be used.
func (x *Exec) FakeSlice(n *Term) *SliceV {
	o := x.newObj("fakeslice", nil, &ArrayV{E: []Val{x.C.Const(8, 0)}})
	return &SliceV{Obj: o, Off: x.i64(0), Len: n, Cap: n}
}

// Assume adds an assumption from a driver-side stub (same effect as vp.Assume in a harness).
func (x *Exec) Assume(t *Term) { x.H.Assumes = append(x.H.Assumes, t) }

// ExtendField is a pointer to field i of the struct p points to.
func (x *Exec) ExtendField(p *PtrV, i int) *PtrV { return x.extend(p, PathEl{Field: i}) }

// AddAssert adds an assertion from a driver-side stub: under guard g, cond must hold.
func (x *Exec) AddAssert(label string, g, cond *Term) {
	x.H.Asserts = append(x.H.Asserts, Assertion{Label: label, G: g, Bad: x.C.And(g, x.C.Not(cond)),
		NAssume: len(x.H.Assumes), NPanic: len(x.Panics), NUnwind: len(x.Unwinds), Pos: "engine-side observer"})
}

// ExtendIndex is a pointer to element i of the array p points to.
func (x *Exec) ExtendIndex(p *PtrV, i int) *PtrV {
	return x.extend(p, PathEl{Field: -1, Idx: x.C.Const(64, uint64(i))})
}

// SliceElem reads element i of a slice.
func (x *Exec) SliceElem(s *SliceV, i int) Val { return x.sliceElem(s, x.i64(int64(i))) }

// GlobalPtr is a pointer to a package-level variable.
func (x *Exec) GlobalPtr(g *ssa.Global) *PtrV { return ptrTo(x.global(g), x.C.True) }

// TableToArray materialises a constant table view.
func (x *Exec) TableToArray(t *TableV) *ArrayV { return x.tableToArray(t).(*ArrayV) }

// StoreSliceElem stores v into s[i] under guard g.
func (x *Exec) StoreSliceElem(s *SliceV, i int, v Val, g *Term) {
	if s.Obj == nil {
		return
	}
	path := append(append([]PathEl(nil), s.Path...), PathEl{Field: -1, Idx: x.C.Add(s.Off, x.i64(int64(i)))})
	s.Obj.V = x.storePath(s.Obj.V, path, v, g)
}

// noteKnown records the literals an unconditional assumption fixes: later branches on exactly these terms are decided
// instead of forked (assumptions are not retroactive: only code executed after the assumption is affected, and
// every obligation created from here on carries the assumption anyway).
func (x *Exec) noteKnown(t *Term, v bool) {
	if x.Known == nil {
		x.Known = map[*Term]bool{}
	}
	switch {
	case t.Op == sym.ONot:
		x.noteKnown(t.Args[0], !v)
	case t.Op == sym.OAnd && t.W == 1 && v:
		for _, a := range t.Args {
			x.noteKnown(a, true)
		}
	case t.Op == sym.OOr && t.W == 1 && !v:
		for _, a := range t.Args {
			x.noteKnown(a, false)
		}
	default:
		if !t.IsConst() {
			x.Known[t] = v
		}
	}
}

// knownCond replaces a branch condition by its assumed truth value when an earlier unconditional assumption fixed it.
func (x *Exec) knownCond(t *Term) *Term {
	if len(x.Known) == 0 || t.IsConst() {
		return t
	}
	if v, ok := x.Known[t]; ok {
		return x.C.Bool(v)
	}
	if t.Op == sym.ONot {
		if v, ok := x.Known[t.Args[0]]; ok {
			return x.C.Bool(!v)
		}
	}
	return t
}
