package exec

import (
	"golang.org/x/tools/go/ssa"
)

// raySpec builds the slider attack set from square sq over occupancy occ by walking rays:
// a square is attacked iff every square strictly between it and sq is empty.
func (x *Exec) raySpec(sq int, occ *Term, dirs [][2]int) *Term {
	c := x.C
	bitsOut := make([]*Term, 64)
	zero := c.Const(1, 0)
	for i := range bitsOut {
		bitsOut[i] = zero
	}
	f0, r0 := sq&7, sq>>3
	for _, d := range dirs {
		clear := c.True
		for k := 1; k <= 7; k++ {
			f, r := f0+k*d[0], r0+k*d[1]
			if f < 0 || f > 7 || r < 0 || r > 7 {
				break
			}
			t := r*8 + f
			bitsOut[t] = clear
			clear = c.And(clear, c.Not(c.Bit(occ, uint8(t))))
		}
	}
	parts := make([]*Term, 64)
	for i := 0; i < 64; i++ {
		parts[63-i] = bitsOut[i]
	}
	return c.Concat(parts...)
}

var rookDirs = [][2]int{{1, 0}, {-1, 0}, {0, 1}, {0, -1}}
var bishopDirs = [][2]int{{1, 1}, {-1, 1}, {1, -1}, {-1, -1}}

// InstallSliderSummary replaces attacks.RookMoves / attacks.BishopMoves by their ray-walk specification for the
// squares for which licensed(kind, sq) holds (the C12 lemma lookup == ray walk was proved on this run for that
// square); other squares keep the exact magic-table encoding.
func (x *Exec) InstallSliderSummary(rook, bishop *ssa.Function, licensed func(kind string, sq int) bool) {
	mk := func(kind string, fn *ssa.Function, dirs [][2]int) Intrinsic {
		return func(x *Exec, f *frame, call *ssa.CallCommon, a []Val, g *Term) Val {
			from := a[0].(*Term)
			occ := a[1].(*Term)
			one := func(sq int) *Term {
				if licensed(kind, sq) {
					x.SummaryUses++
					return x.raySpec(sq, occ, dirs)
				}
				x.ExactSliderUses++
				return x.Call(fn, []Val{x.C.Const(from.W, uint64(sq)), occ}, nil, g).(*Term)
			}
			if from.IsConst() {
				return one(int(from.C & 63))
			}
			memo := map[int]*Term{}
			return x.C.Mux(x.C.Extract(5, 0, from), 64, func(i int) *Term {
				if t, ok := memo[i]; ok {
					return t
				}
				t := one(i)
				memo[i] = t
				return t
			})
		}
	}
	x.Intrinsics[rook.String()] = mk("rook", rook, rookDirs)
	x.Intrinsics[bishop.String()] = mk("bishop", bishop, bishopDirs)
}
