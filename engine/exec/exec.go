package exec

import (
	"fmt"
	"go/constant"
	"go/token"
	"go/types"
	"sort"
	"strings"

	"golang.org/x/tools/go/ssa"

	"vp/sym"
)

// PanicCond is a potential run-time panic: Cond (1-bit) is path guard && failing condition.
type PanicCond struct {
	Cond    *Term
	Kind    string
	Pos     string
	NAssume int
}

func (x *Exec) addPanic(cond *Term, kind, pos string) {
	n := 0
	if x.H != nil {
		n = len(x.H.Assumes)
	}
	x.Panics = append(x.Panics, PanicCond{Cond: cond, Kind: kind, Pos: pos, NAssume: n})
}

// Unwind records a loop whose continuation guard was still satisfiable at its bound.
type Unwind struct {
	Cond  *Term
	Pos   string
	Bound int
}

type Intrinsic func(x *Exec, f *frame, call *ssa.CallCommon, args []Val, g *Term) Val

type Exec struct {
	C    *sym.Ctx
	Prog *ssa.Program

	Globals  map[*ssa.Global]*Obj
	GlobInit func(g *ssa.Global) (Val, bool) // dumped post-init value

	Panics  []PanicCond
	Unwinds []Unwind

	Known      map[*Term]bool // literals fixed by unconditional assumptions (see noteKnown)
	Intrinsics map[string]Intrinsic

	LoopBound   int            // default unrolling bound for data-dependent loops
	LoopBounds  map[string]int // per function name override
	MaxDepth    int
	Reindex     bool // re-index bit-scan loops by bit position
	NReindexed  int
	NUnrolled   int
	FuncsSeen   map[string]int // functions symbolically executed -> SSA instruction count
	InstrCount  int
	nObj        int
	strObjs     map[string]*Obj
	loopCache   map[*ssa.Function]*loopInfo
	depth       int
	Trace       bool
	StubCalls   map[string]int
	AssumeNoPanicIn map[string]bool
	H *HarnessState
	TermsBy map[string]int
	SummaryUses int
	Notes map[string]int
	ExactSliderUses int
}

func New(c *sym.Ctx, prog *ssa.Program) *Exec {
	return &Exec{C: c, Prog: prog, Globals: map[*ssa.Global]*Obj{}, Intrinsics: map[string]Intrinsic{},
		LoopBound: 8, LoopBounds: map[string]int{}, MaxDepth: 64, Reindex: true, FuncsSeen: map[string]int{},
		strObjs: map[string]*Obj{}, loopCache: map[*ssa.Function]*loopInfo{}, StubCalls: map[string]int{}, TermsBy: map[string]int{}, Notes: map[string]int{}}
}

// sentinelType is the dynamic type given to package-level error sentinels.
var sentinelType = types.NewPointer(types.NewNamed(types.NewTypeName(0, nil, "errorSentinel", nil), types.NewStruct(nil, nil), nil))

type deferred struct {
	g    *Term
	call *ssa.CallCommon
	args []Val
	fn   Val
}

type frame struct {
	fn      *ssa.Function
	vals    map[ssa.Value]Val
	pendG   map[*ssa.BasicBlock]*Term
	pendPhi map[*ssa.BasicBlock][]Val
	g       *Term // guard of the block being executed
	retG    *Term
	ret     Val
	defers  []deferred
	binds   []Val
	li      *loopInfo
	exitV   map[*loop]map[ssa.Value]Val
	curLoop *loop
	done    map[*ssa.BasicBlock]int
	pass    int
	condConst map[*ssa.BasicBlock]bool
	blockG    map[*ssa.BasicBlock]*Term
}

// Call symbolically executes fn with args under guard g and returns its result (nil, a Val, or *TupleV).
func (x *Exec) Call(fn *ssa.Function, args []Val, binds []Val, g *Term) Val {
	if g.IsConst() && g.C == 0 {
		return x.zeroResult(fn.Signature)
	}
	if fn.Blocks == nil {
		fail("call of external function %s (no body)", fn.String())
	}
	if x.depth >= x.MaxDepth {
		fail("call depth exceeded at %s", fn.String())
	}
	x.depth++
	t0 := x.C.NTerms
	defer func() { x.depth--; x.TermsBy[fn.String()] += x.C.NTerms - t0 }()
	if _, ok := x.FuncsSeen[fn.String()]; !ok {
		n := 0
		for _, b := range fn.Blocks {
			n += len(b.Instrs)
		}
		x.FuncsSeen[fn.String()] = n
	}
	f := &frame{fn: fn, vals: map[ssa.Value]Val{}, pendG: map[*ssa.BasicBlock]*Term{}, pendPhi: map[*ssa.BasicBlock][]Val{},
		retG: x.C.False, binds: binds, exitV: map[*loop]map[ssa.Value]Val{}, done: map[*ssa.BasicBlock]int{}, condConst: map[*ssa.BasicBlock]bool{}, blockG: map[*ssa.BasicBlock]*Term{}}
	if len(args) != len(fn.Params) {
		fail("arity mismatch calling %s: %d vs %d", fn.String(), len(args), len(fn.Params))
	}
	for i, p := range fn.Params {
		f.vals[p] = args[i]
	}
	f.li = x.loops(fn)
	f.pendG[fn.Blocks[0]] = g
	x.runRegion(f, nil)
	if f.ret == nil {
		return x.zeroResult(fn.Signature)
	}
	return f.ret
}

func (x *Exec) zeroResult(sig *types.Signature) Val {
	r := sig.Results()
	switch r.Len() {
	case 0:
		return nil
	case 1:
		return x.zero(r.At(0).Type())
	}
	return x.zero(r)
}

// ---------------------------------------------------------------- regions and loops

func (x *Exec) runRegion(f *frame, L *loop) {
	f.pass++
	pass := f.pass
	var order []*ssa.BasicBlock
	if L == nil {
		order = f.li.order
	} else {
		order = L.blocks
	}
	for _, b := range order {
		if f.done[b] >= pass {
			continue
		}
		if sub := f.li.header[b]; sub != nil && sub != L {
			x.runLoop(f, sub)
			// runLoop bumped f.pass; mark its blocks done for our pass
			for _, bb := range sub.blocks {
				f.done[bb] = f.pass
			}
			// make sure later checks in this region see them as done
			pass = f.pass
			continue
		}
		x.runBlock(f, b)
	}
}

func (x *Exec) loopBound(f *frame) int {
	if n, ok := x.LoopBounds[f.fn.String()]; ok {
		return n
	}
	if n, ok := x.LoopBounds[f.fn.Name()]; ok {
		return n
	}
	return x.LoopBound
}

func (x *Exec) runLoop(f *frame, L *loop) {
	saved := f.curLoop
	f.curLoop = L
	defer func() { f.curLoop = saved }()
	H := L.header
	// loop entry: if the header's immediate dominator (outside the loop) is always followed by the header, the
	// entry guard is exactly the dominator's guard
	if d := H.Idom(); d != nil && f.li.inner[d] == L.parent && f.li.rejoins(d, H) {
		if dg, ok := f.blockG[d]; ok && f.pendG[H] != nil {
			f.pendG[H] = dg
		}
	}
	if x.Reindex && L.bitscan != nil {
		x.runBitscan(f, L)
	} else {
		bound := x.loopBound(f)
		hard := 1 << 20
		symIters := 0
		for iter := 0; ; iter++ {
			g := f.pendG[H]
			if g == nil || (g.IsConst() && g.C == 0) {
				delete(f.pendG, H)
				delete(f.pendPhi, H)
				break
			}
			if iter >= hard {
				fail("loop in %s does not terminate concretely", f.fn.String())
			}
			// iterations whose trip test was decided concretely run to completion; symbolic ones stop at the bound
			if symIters >= bound {
				x.Unwinds = append(x.Unwinds, Unwind{Cond: g, Pos: x.pos(H.Instrs[0].Pos(), f.fn), Bound: bound})
				delete(f.pendG, H)
				delete(f.pendPhi, H)
				break
			}
			delete(f.condConst, H)
			nUnw := len(x.Unwinds)
			x.runRegion(f, L)
			// an iteration counts against the bound unless the whole iteration was decided concretely: the header's
			// test folded to a constant and no loop inside it was cut at its bound (cut paths are dropped, which can make
			// the rest of an endless `for {}` look concrete forever)
			_, isIf := H.Instrs[len(H.Instrs)-1].(*ssa.If)
			if !isIf || !f.condConst[H] || len(x.Unwinds) > nUnw {
				symIters++
			}
			if x.Trace {
				fmt.Printf("      loop %s iter=%d symIters=%d bound=%d isIf=%v condConst=%v\n", f.fn.Name(), iter, symIters, bound, isIf, f.condConst[H])
			}
		}
		x.NUnrolled++
	}
	// values defined in the loop and used after it: take the exit-merged versions
	if ev := f.exitV[L]; ev != nil {
		for v, val := range ev {
			f.vals[v] = val
		}
		delete(f.exitV, L)
	}
}

func (x *Exec) runBitscan(f *frame, L *loop) {
	H := L.header
	bs := L.bitscan
	g0 := f.pendG[H]
	if g0 == nil || (g0.IsConst() && g0.C == 0) {
		delete(f.pendG, H)
		delete(f.pendPhi, H)
		return
	}
	phis0 := f.pendPhi[H]
	X0, ok := phis0[bs.phiIdx].(*Term)
	if !ok || X0.W != 64 {
		fail("bitscan phi is not a 64-bit term")
	}
	x.NReindexed++
	c := x.C
	for i := 0; i < 64; i++ {
		g := f.pendG[H]
		if g == nil || (g.IsConst() && g.C == 0) {
			break
		}
		phis := f.pendPhi[H]
		bit := c.Bit(X0, uint8(i))
		if bit.IsConst() && bit.C == 0 {
			continue // nothing to do for this bit; pending state carries over unchanged
		}
		run := c.And(g, bit)
		skip := c.And(g, c.Not(bit))
		// x_i = concat(X0[63:i+1], 1, 0...0)
		var parts []*Term
		if i < 63 {
			parts = append(parts, c.Extract(63, uint8(i+1), X0))
		}
		parts = append(parts, c.Const(uint8(i+1), uint64(1)<<uint(i)))
		xi := c.Concat(parts...)
		nphis := append([]Val(nil), phis...)
		nphis[bs.phiIdx] = xi
		f.pendG[H] = run
		f.pendPhi[H] = nphis
		x.runRegion(f, L)
		// merge the skipped state with the back-edge state
		bg := f.pendG[H]
		bphis := f.pendPhi[H]
		if bg == nil || (bg.IsConst() && bg.C == 0) {
			f.pendG[H] = skip
			f.pendPhi[H] = phis
			continue
		}
		mp := make([]Val, len(phis))
		for k := range phis {
			if k == bs.phiIdx {
				mp[k] = X0 // placeholder, re-bound next iteration
				continue
			}
			mp[k] = x.merge(skip, phis[k], bphis[k])
		}
		f.pendG[H] = c.Or(bg, skip)
		f.pendPhi[H] = mp
	}
	// final pass with x == 0 so that the header takes its exit edge
	g := f.pendG[H]
	if g != nil && !(g.IsConst() && g.C == 0) {
		phis := append([]Val(nil), f.pendPhi[H]...)
		phis[bs.phiIdx] = c.Const(64, 0)
		f.pendPhi[H] = phis
		x.runRegion(f, L)
		if g2 := f.pendG[H]; g2 != nil && !(g2.IsConst() && g2.C == 0) {
			fail("bitscan loop in %s did not exit on zero", f.fn.String())
		}
	}
	delete(f.pendG, H)
	delete(f.pendPhi, H)
}

func (x *Exec) pos(p token.Pos, fn *ssa.Function) string {
	if p == token.NoPos {
		return fn.String()
	}
	ps := x.Prog.Fset.Position(p)
	return fmt.Sprintf("%s:%d", ps.Filename, ps.Line)
}

// edge transfers control from block `from` to `to` under guard g.
func (x *Exec) edge(f *frame, from, to *ssa.BasicBlock, g *Term) {
	if g.IsConst() && g.C == 0 {
		return
	}
	// phi operands
	idx := -1
	for i, p := range to.Preds {
		if p == from {
			idx = i
			break
		}
	}
	var nphi int
	for _, ins := range to.Instrs {
		if _, ok := ins.(*ssa.Phi); ok {
			nphi++
		} else {
			break
		}
	}
	old := f.pendPhi[to]
	oldG := f.pendG[to]
	if nphi > 0 {
		np := make([]Val, nphi)
		for k := 0; k < nphi; k++ {
			phi := to.Instrs[k].(*ssa.Phi)
			v := x.operand(f, phi.Edges[idx])
			if old == nil || oldG == nil {
				np[k] = v
			} else {
				np[k] = x.merge(g, v, old[k])
			}
		}
		f.pendPhi[to] = np
	}
	if oldG == nil {
		f.pendG[to] = g
	} else {
		f.pendG[to] = x.C.Or(oldG, g)
	}
	// loop exits: snapshot live-out values of every loop being left
	for L := f.li.inner[from]; L != nil; L = L.parent {
		if L.contains[to] {
			break
		}
		if len(L.liveOut) == 0 {
			continue
		}
		ev := f.exitV[L]
		if ev == nil {
			ev = map[ssa.Value]Val{}
			f.exitV[L] = ev
		}
		for _, v := range L.liveOut {
			cur, ok := f.vals[v]
			if !ok {
				continue
			}
			if o, ok := ev[v]; ok {
				ev[v] = x.merge(g, cur, o)
			} else {
				ev[v] = cur
			}
		}
	}
}

func (x *Exec) runBlock(f *frame, b *ssa.BasicBlock) {
	g := f.pendG[b]
	phis := f.pendPhi[b]
	delete(f.pendG, b)
	delete(f.pendPhi, b)
	if g == nil || (g.IsConst() && g.C == 0) {
		delete(f.blockG, b)
		return
	}
	// a join whose immediate dominator is always followed by this block has exactly the dominator's guard
	if len(b.Preds) > 1 && f.li.header[b] == nil {
		if d := b.Idom(); d != nil && f.li.inner[d] == f.li.inner[b] && f.li.rejoins(d, b) {
			if dg, ok := f.blockG[d]; ok {
				g = dg
			}
		}
	}
	f.blockG[b] = g
	f.g = g
	for i, ins := range b.Instrs {
		if phi, ok := ins.(*ssa.Phi); ok {
			f.vals[phi] = phis[i]
			continue
		}
		x.InstrCount++
		x.step(f, b, ins)
	}
}

// ---------------------------------------------------------------- operands

func (x *Exec) constVal(k *ssa.Const) Val {
	t := k.Type()
	if k.Value == nil {
		return x.zero(t)
	}
	if w, _, ok := widthOf(t); ok {
		switch k.Value.Kind() {
		case constant.Bool:
			return x.C.Bool(constant.BoolVal(k.Value))
		case constant.Int:
			if v, ok := constant.Int64Val(k.Value); ok {
				return x.C.Const(w, uint64(v))
			}
			if v, ok := constant.Uint64Val(k.Value); ok {
				return x.C.Const(w, v)
			}
		}
		fail("constant %v of type %v", k.Value, t)
	}
	if b, ok := t.Underlying().(*types.Basic); ok {
		if b.Info()&types.IsString != 0 {
			return &StringV{Const: constant.StringVal(k.Value)}
		}
		if b.Info()&types.IsFloat != 0 {
			return &FloatV{}
		}
	}
	fail("unsupported constant %v : %v", k.Value, t)
	return nil
}

func (x *Exec) operand(f *frame, v ssa.Value) Val {
	switch v := v.(type) {
	case *ssa.Const:
		return x.constVal(v)
	case *ssa.Global:
		return ptrTo(x.global(v), x.C.True)
	case *ssa.Function:
		return &FuncV{Fn: v}
	case *ssa.Builtin:
		fail("builtin %s used as a value", v.Name())
	case *ssa.FreeVar:
		for i, fv := range f.fn.FreeVars {
			if fv == v {
				return f.binds[i]
			}
		}
		fail("free var not bound")
	}
	if val, ok := f.vals[v]; ok {
		return val
	}
	// a value whose defining block was never executed (guard false): any value will do
	return x.zero(v.Type())
}

func (x *Exec) term(f *frame, v ssa.Value) *Term {
	t, ok := x.operand(f, v).(*Term)
	if !ok {
		fail("expected scalar for %s (%v), got %T", v.Name(), v.Type(), x.operand(f, v))
	}
	return t
}

func (x *Exec) global(g *ssa.Global) *Obj {
	if o, ok := x.Globals[g]; ok {
		return o
	}
	et := g.Type().(*types.Pointer).Elem()
	var v Val
	if x.GlobInit != nil {
		if iv, ok := x.GlobInit(g); ok {
			v = iv
		}
	}
	if v == nil {
		v = x.zero(et)
		// package-level error variables (io.EOF, ErrChunkInvalid, ...) are distinct non-nil sentinels
		if iv, ok := v.(*IfaceV); ok && iv.IsNil.IsConst() && types.Identical(et, types.Universe.Lookup("error").Type()) {
			so := x.newObj("errsentinel:"+g.String(), nil, x.C.Const(8, 0))
			v = &IfaceV{IsNil: x.C.False, Typ: sentinelType, V: ptrTo(so, x.C.True)}
		}
	}
	o := x.newObj("global:"+g.String(), et, v)
	x.Globals[g] = o
	return o
}

func (x *Exec) panicIf(f *frame, cond *Term, kind string, p token.Pos) {
	c := x.C.And(f.g, cond)
	if c.IsConst() && c.C == 0 {
		return
	}
	x.addPanic(c, kind, x.pos(p, f.fn))
}

// ---------------------------------------------------------------- instructions

func (x *Exec) step(f *frame, b *ssa.BasicBlock, ins ssa.Instruction) {
	c := x.C
	switch ins := ins.(type) {
	case *ssa.DebugRef:
	case *ssa.If:
		cond := x.knownCond(x.term(f, ins.Cond))
		f.condConst[b] = cond.IsConst()
		if x.Trace && !cond.IsConst() && f.fn.Name() == "vpPathEmpty" {
			fmt.Printf("      sym cond in %s block %d: %v op=%d args=%v\n", f.fn.Name(), b.Index, cond, cond.Op, cond.Args)
		}
		x.edge(f, b, b.Succs[0], c.And(f.g, cond))
		x.edge(f, b, b.Succs[1], c.And(f.g, c.Not(cond)))
	case *ssa.Jump:
		x.edge(f, b, b.Succs[0], f.g)
	case *ssa.Return:
		var rv Val
		switch len(ins.Results) {
		case 0:
		case 1:
			rv = x.operand(f, ins.Results[0])
		default:
			tv := &TupleV{E: make([]Val, len(ins.Results))}
			for i, r := range ins.Results {
				tv.E[i] = x.operand(f, r)
			}
			rv = tv
		}
		if rv != nil {
			if f.ret == nil {
				f.ret = rv
			} else {
				f.ret = x.merge(f.g, rv, f.ret)
			}
		}
		f.retG = c.Or(f.retG, f.g)
	case *ssa.Panic:
		x.addPanic(f.g, "explicit panic", x.pos(ins.Pos(), f.fn))
	case *ssa.RunDefers:
		ds := f.defers
		f.defers = nil
		saved := f.g
		for i := len(ds) - 1; i >= 0; i-- {
			d := ds[i]
			g := c.And(saved, d.g)
			if g.IsConst() && g.C == 0 {
				continue
			}
			f.g = g
			x.doCall(f, d.call, d.fn, d.args, ins.Pos())
		}
		f.g = saved
		f.defers = ds // a later RunDefers on another path may need them (guards keep them apart)
	case *ssa.Defer:
		fnv, args := x.callOperands(f, &ins.Call)
		f.defers = append(f.defers, deferred{g: f.g, call: &ins.Call, args: args, fn: fnv})
	case *ssa.Go, *ssa.Send, *ssa.Select:
		fail("concurrency instruction %T in %s is not encodable", ins, f.fn.String())
	case *ssa.Store:
		p := x.operand(f, ins.Addr).(*PtrV)
		x.panicIf(f, x.isNilPtr(p), "nil dereference", ins.Pos())
		x.Store(p, x.operand(f, ins.Val), f.g)
	case *ssa.MapUpdate:
		fail("map update not supported")
	case ssa.Value:
		f.vals[ins] = x.value(f, ins)
	default:
		fail("unsupported instruction %T", ins)
	}
}

func (x *Exec) value(f *frame, ins ssa.Value) Val {
	c := x.C
	switch v := ins.(type) {
	case *ssa.Alloc:
		et := v.Type().(*types.Pointer).Elem()
		o := x.newObj(v.Comment+"@"+f.fn.Name(), et, x.zero(et))
		o.AllocG = f.g
		return ptrTo(o, c.True)
	case *ssa.BinOp:
		return x.binop(f, v)
	case *ssa.UnOp:
		return x.unop(f, v)
	case *ssa.Call:
		fnv, args := x.callOperands(f, &v.Call)
		return x.doCall(f, &v.Call, fnv, args, v.Pos())
	case *ssa.ChangeType:
		return x.operand(f, v.X)
	case *ssa.Convert:
		return x.convert(f, x.operand(f, v.X), v.X.Type(), v.Type())
	case *ssa.MultiConvert:
		return x.convert(f, x.operand(f, v.X), v.X.Type(), v.Type())
	case *ssa.ChangeInterface:
		return x.operand(f, v.X)
	case *ssa.MakeInterface:
		return &IfaceV{IsNil: c.False, Typ: v.X.Type(), V: x.operand(f, v.X)}
	case *ssa.MakeClosure:
		fv := &FuncV{Fn: v.Fn.(*ssa.Function)}
		for _, b := range v.Bindings {
			fv.Binds = append(fv.Binds, x.operand(f, b))
		}
		return fv
	case *ssa.MakeSlice:
		n := x.term(f, v.Len)
		cp := x.term(f, v.Cap)
		if !cp.IsConst() {
			fail("make([]T) with symbolic capacity in %s", f.fn.String())
		}
		et := v.Type().Underlying().(*types.Slice).Elem()
		if cp.C == 0 {
			// make([]T, 0): give the empty slice a hidden capacity so that later appends stay in one backing array
			// (growth reallocations of initially empty slices are not modelled; cap() is not Go's growth formula)
			cp = c.Const(cp.W, 32)
		}
		at := types.NewArray(et, int64(cp.C))
		o := x.newObj("make@"+f.fn.Name(), at, x.zero(at))
		return &SliceV{Obj: o, Off: x.i64(0), Len: c.ZExt(n, 64), Cap: c.ZExt(cp, 64)}
	case *ssa.MakeChan:
		return &ChanV{NonNil: true} // channels are opaque; sends, receives and selects are not encodable
	case *ssa.MakeMap:
		fail("make(map) not supported")
	case *ssa.FieldAddr:
		p := x.operand(f, v.X).(*PtrV)
		x.panicIf(f, x.isNilPtr(p), "nil dereference", v.Pos())
		return x.extend(p, PathEl{Field: v.Field})
	case *ssa.Field:
		return x.operand(f, v.X).(*StructV).F[v.Field]
	case *ssa.IndexAddr:
		idx := c.SExt(x.term(f, v.Index), 64)
		if _, _, ok := widthOf(v.Index.Type()); ok {
			if _, sg, _ := widthOf(v.Index.Type()); !sg {
				idx = c.ZExt(x.term(f, v.Index), 64)
			}
		}
		switch base := x.operand(f, v.X).(type) {
		case *PtrV: // pointer to array
			n := v.X.Type().Underlying().(*types.Pointer).Elem().Underlying().(*types.Array).Len()
			x.panicIf(f, x.isNilPtr(base), "nil dereference", v.Pos())
			x.panicIf(f, c.Not(c.Ult(idx, x.i64(n))), "index out of range", v.Pos())
			return x.extend(base, PathEl{Field: -1, Idx: idx})
		case *SliceV:
			x.panicIf(f, c.Not(c.Ult(idx, base.Len)), "index out of range", v.Pos())
			if base.Obj == nil {
				return &PtrV{}
			}
			np := append(append([]PathEl(nil), base.Path...), PathEl{Field: -1, Idx: c.Add(base.Off, idx)})
			return ptrTo(base.Obj, c.True, np...)
		}
		fail("IndexAddr on %T", x.operand(f, v.X))
	case *ssa.Index:
		idx := x.idx64(f, v.Index)
		switch base := x.operand(f, v.X).(type) {
		case *ArrayV:
			x.panicIf(f, c.Not(c.Ult(idx, x.i64(int64(len(base.E))))), "index out of range", v.Pos())
			return x.index(base, idx)
		case *TableV:
			x.panicIf(f, c.Not(c.Ult(idx, x.i64(int64(base.Dims[0])))), "index out of range", v.Pos())
			return x.index(base, idx)
		case *StringV:
			s := x.strSlice(base)
			x.panicIf(f, c.Not(c.Ult(idx, s.Len)), "index out of range", v.Pos())
			return x.sliceElem(s, idx)
		}
		fail("Index on %T", x.operand(f, v.X))
	case *ssa.Lookup:
		switch base := x.operand(f, v.X).(type) {
		case *StringV:
			idx := x.idx64(f, v.Index)
			s := x.strSlice(base)
			x.panicIf(f, c.Not(c.Ult(idx, s.Len)), "index out of range", v.Pos())
			return x.sliceElem(s, idx)
		case *MapV:
			key := x.term(f, v.Index)
			if base == nil {
				fail("lookup in nil/unknown map")
			}
			var res Val = base.Zero
			found := c.False
			for i := len(base.Keys) - 1; i >= 0; i-- {
				hit := c.Eq(key, c.Const(key.W, base.Keys[i]))
				res = x.merge(hit, base.Vals[i], res)
				found = c.Or(found, hit)
			}
			if v.CommaOk {
				return &TupleV{E: []Val{res, found}}
			}
			return res
		}
		fail("Lookup on %T", x.operand(f, v.X))
	case *ssa.Slice:
		return x.slice(f, v)
	case *ssa.Extract:
		return x.operand(f, v.Tuple).(*TupleV).E[v.Index]
	case *ssa.TypeAssert:
		return x.typeAssert(f, v)
	case *ssa.SliceToArrayPointer:
		s := x.operand(f, v.X).(*SliceV)
		n := v.Type().Underlying().(*types.Pointer).Elem().Underlying().(*types.Array).Len()
		x.panicIf(f, c.Ult(s.Len, x.i64(n)), "slice to array pointer: short slice", v.Pos())
		if !s.Off.IsConst() || s.Off.C != 0 || s.Obj == nil {
			fail("SliceToArrayPointer with offset")
		}
		return ptrTo(s.Obj, c.True, s.Path...)
	case *ssa.Range, *ssa.Next:
		fail("range over map/string is not supported (%s)", f.fn.String())
	}
	fail("unsupported value instruction %T in %s", ins, f.fn.String())
	return nil
}

func (x *Exec) idx64(f *frame, v ssa.Value) *Term {
	t := x.term(f, v)
	if _, sg, _ := widthOf(v.Type()); sg {
		return x.C.SExt(t, 64)
	}
	return x.C.ZExt(t, 64)
}

func (x *Exec) sliceElem(s *SliceV, idx *Term) Val {
	if s.Obj == nil {
		fail("element of nil slice")
	}
	arr := x.loadPath(s.Obj.V, s.Path)
	return x.index(arr, x.C.Add(s.Off, idx))
}

func (x *Exec) slice(f *frame, v *ssa.Slice) Val {
	c := x.C
	opt := func(val ssa.Value, def *Term) *Term {
		if val == nil {
			return def
		}
		return x.idx64(f, val)
	}
	switch base := x.operand(f, v.X).(type) {
	case *SliceV:
		lo := opt(v.Low, x.i64(0))
		hi := opt(v.High, base.Len)
		mx := opt(v.Max, base.Cap)
		x.panicIf(f, c.Or(c.Ult(base.Cap, hi), c.Ult(hi, lo), c.Ult(mx, hi), c.Ult(base.Cap, mx)), "slice bounds out of range", v.Pos())
		return &SliceV{Obj: base.Obj, Path: base.Path, Off: c.Add(base.Off, lo), Len: c.Sub(hi, lo), Cap: c.Sub(mx, lo)}
	case *PtrV: // pointer to array
		at := v.X.Type().Underlying().(*types.Pointer).Elem().Underlying().(*types.Array)
		n := at.Len()
		if n == 0 {
			// make([]T, 0) with a constant size: give the empty slice a hidden capacity (see MakeSlice)
			nat := types.NewArray(at.Elem(), 32)
			o := x.newObj("make0@"+f.fn.Name(), nat, x.zero(nat))
			return &SliceV{Obj: o, Off: x.i64(0), Len: x.i64(0), Cap: x.i64(32)}
		}
		lo := opt(v.Low, x.i64(0))
		hi := opt(v.High, x.i64(n))
		mx := opt(v.Max, x.i64(n))
		x.panicIf(f, c.Or(c.Ult(x.i64(n), hi), c.Ult(hi, lo), c.Ult(mx, hi), c.Ult(x.i64(n), mx)), "slice bounds out of range", v.Pos())
		if len(base.Alts) != 1 {
			fail("slice of merged array pointer")
		}
		al := base.Alts[0]
		return &SliceV{Obj: al.Obj, Path: al.Path, Off: lo, Len: c.Sub(hi, lo), Cap: c.Sub(mx, lo)}
	case *StringV:
		s := x.strSlice(base)
		lo := opt(v.Low, x.i64(0))
		hi := opt(v.High, s.Len)
		x.panicIf(f, c.Or(c.Ult(s.Len, hi), c.Ult(hi, lo)), "slice bounds out of range", v.Pos())
		if !base.IsSym && lo.IsConst() && hi.IsConst() && hi.C <= uint64(len(base.Const)) && lo.C <= hi.C {
			return &StringV{Const: base.Const[lo.C:hi.C]}
		}
		return &StringV{IsSym: true, S: &SliceV{Obj: s.Obj, Path: s.Path, Off: c.Add(s.Off, lo), Len: c.Sub(hi, lo), Cap: c.Sub(hi, lo)}}
	}
	fail("Slice on %T", x.operand(f, v.X))
	return nil
}

func (x *Exec) typeAssert(f *frame, v *ssa.TypeAssert) Val {
	c := x.C
	iv := x.operand(f, v.X).(*IfaceV)
	if _, isIface := v.AssertedType.Underlying().(*types.Interface); isIface {
		// interface-to-interface: succeeds iff non-nil (method sets are trusted to match statically where it matters)
		ok := c.Not(iv.IsNil)
		if v.CommaOk {
			return &TupleV{E: []Val{iv, ok}}
		}
		x.panicIf(f, iv.IsNil, "type assertion on nil interface", v.Pos())
		return iv
	}
	if iv.Typ == nil {
		if iv.IsNil.IsConst() && iv.IsNil.C == 1 {
			if v.CommaOk {
				return &TupleV{E: []Val{x.zero(v.AssertedType), c.False}}
			}
			x.panicIf(f, c.True, "type assertion on nil interface", v.Pos())
			return x.zero(v.AssertedType)
		}
		fail("type assertion on opaque interface value in %s", f.fn.String())
	}
	match := types.Identical(iv.Typ, v.AssertedType)
	if !match {
		if v.CommaOk {
			return &TupleV{E: []Val{x.zero(v.AssertedType), c.False}}
		}
		x.panicIf(f, c.True, "failed type assertion", v.Pos())
		return x.zero(v.AssertedType)
	}
	ok := c.Not(iv.IsNil)
	if v.CommaOk {
		return &TupleV{E: []Val{iv.V, ok}}
	}
	x.panicIf(f, iv.IsNil, "type assertion on nil interface", v.Pos())
	return iv.V
}

func (x *Exec) convert(f *frame, v Val, from, to types.Type) Val {
	c := x.C
	if tw, _, ok := widthOf(to); ok {
		if t, isT := v.(*Term); isT {
			_, fs, _ := widthOf(from)
			switch {
			case t.W == tw:
				return t
			case t.W > tw:
				return c.Extract(tw-1, 0, t)
			case fs:
				return c.SExt(t, tw)
			default:
				return c.ZExt(t, tw)
			}
		}
		if _, isF := v.(*FloatV); isF {
			fail("float to int conversion")
		}
	}
	tu := to.Underlying()
	if b, ok := tu.(*types.Basic); ok {
		if b.Info()&types.IsFloat != 0 {
			return &FloatV{}
		}
		if b.Info()&types.IsString != 0 {
			switch s := v.(type) {
			case *StringV:
				return s
			case *SliceV: // string(bytes): copies; we alias, strings are immutable and callers here do not mutate the source afterwards
				return &StringV{IsSym: true, S: x.copySlice(s)}
			case *Term: // string(rune)
				if s.IsConst() {
					return &StringV{Const: string(rune(s.C))}
				}
				fail("string(symbolic rune)")
			}
		}
		if b.Kind() == types.UnsafePointer {
			return v
		}
	}
	if _, ok := tu.(*types.Slice); ok {
		if s, isS := v.(*StringV); isS { // []byte(str)
			return x.copySlice(x.strSlice(s))
		}
	}
	if _, ok := tu.(*types.Pointer); ok {
		return v
	}
	fail("unsupported conversion %v -> %v", from, to)
	return nil
}

// copySlice makes a fresh backing array holding the current contents of s (len must be concrete or bounded by cap).
func (x *Exec) copySlice(s *SliceV) *SliceV {
	if s.Obj == nil {
		return s
	}
	if !s.Cap.IsConst() && !s.Len.IsConst() {
		// symbolic length: copy the whole addressable window [Off, Off+maxlen)
	}
	arr := x.loadPath(s.Obj.V, s.Path)
	var n int
	switch a := arr.(type) {
	case *ArrayV:
		n = len(a.E)
	case *TableV:
		n = a.Dims[0]
	}
	if s.Off.IsConst() && s.Off.C == 0 {
		o := x.newObj("copy", nil, arr)
		return &SliceV{Obj: o, Off: x.i64(0), Len: s.Len, Cap: s.Len}
	}
	na := &ArrayV{E: make([]Val, n)}
	for i := 0; i < n; i++ {
		na.E[i] = x.index(arr, x.C.Add(s.Off, x.i64(int64(i))))
	}
	o := x.newObj("copy", nil, na)
	return &SliceV{Obj: o, Off: x.i64(0), Len: s.Len, Cap: s.Len}
}

func (x *Exec) unop(f *frame, v *ssa.UnOp) Val {
	c := x.C
	switch v.Op {
	case token.MUL:
		p := x.operand(f, v.X).(*PtrV)
		nilc := x.isNilPtr(p)
		x.panicIf(f, nilc, "nil dereference", v.Pos())
		if len(p.Alts) == 0 {
			return x.zero(v.Type())
		}
		return x.Load(p)
	case token.NOT:
		return c.Not(x.term(f, v.X))
	case token.SUB:
		return c.Neg(x.term(f, v.X))
	case token.XOR:
		return c.Not(x.term(f, v.X))
	case token.ARROW:
		fail("channel receive in %s is not encodable", f.fn.String())
	}
	fail("unsupported unop %v", v.Op)
	return nil
}

func (x *Exec) binop(f *frame, v *ssa.BinOp) Val {
	c := x.C
	a := x.operand(f, v.X)
	b := x.operand(f, v.Y)
	at, aIsT := a.(*Term)
	bt, bIsT := b.(*Term)
	if aIsT && bIsT {
		_, sg, _ := widthOf(v.X.Type())
		switch v.Op {
		case token.ADD:
			return c.Add(at, bt)
		case token.SUB:
			return c.Sub(at, bt)
		case token.MUL:
			return c.Mul(at, bt)
		case token.QUO:
			x.panicIf(f, c.Eq(bt, c.Const(bt.W, 0)), "integer divide by zero", v.Pos())
			if sg {
				return c.SDiv(at, bt)
			}
			return c.UDiv(at, bt)
		case token.REM:
			x.panicIf(f, c.Eq(bt, c.Const(bt.W, 0)), "integer divide by zero", v.Pos())
			if sg {
				return c.SRem(at, bt)
			}
			return c.URem(at, bt)
		case token.AND:
			return c.And(at, bt)
		case token.OR:
			return c.Or(at, bt)
		case token.XOR:
			return c.Xor(at, bt)
		case token.AND_NOT:
			return c.And(at, c.Not(bt))
		case token.SHL, token.SHR:
			_, ysg, _ := widthOf(v.Y.Type())
			if ysg {
				x.panicIf(f, c.Slt(bt, c.Const(bt.W, 0)), "negative shift amount", v.Pos())
			}
			// bring the amount to the width of x, saturating
			var n *Term
			switch {
			case bt.W == at.W:
				n = bt
			case bt.W < at.W:
				n = c.ZExt(bt, at.W)
			default:
				big := c.Not(c.Ult(bt, c.Const(bt.W, uint64(at.W))))
				n = c.Ite(big, c.Const(at.W, uint64(at.W)), c.Extract(at.W-1, 0, bt))
			}
			if v.Op == token.SHL {
				return c.Shl(at, n)
			}
			if sg {
				return c.AShr(at, n)
			}
			return c.LShr(at, n)
		case token.EQL:
			return c.Eq(at, bt)
		case token.NEQ:
			return c.Ne(at, bt)
		case token.LSS:
			if sg {
				return c.Slt(at, bt)
			}
			return c.Ult(at, bt)
		case token.LEQ:
			if sg {
				return c.Sle(at, bt)
			}
			return c.Ule(at, bt)
		case token.GTR:
			if sg {
				return c.Slt(bt, at)
			}
			return c.Ult(bt, at)
		case token.GEQ:
			if sg {
				return c.Sle(bt, at)
			}
			return c.Ule(bt, at)
		}
		fail("unsupported int binop %v", v.Op)
	}
	if v.Op == token.EQL || v.Op == token.NEQ {
		eq := x.equal(a, b)
		if v.Op == token.NEQ {
			return c.Not(eq)
		}
		return eq
	}
	if sa, ok := a.(*StringV); ok {
		sb := b.(*StringV)
		if v.Op == token.ADD && !sa.IsSym && !sb.IsSym {
			return &StringV{Const: sa.Const + sb.Const}
		}
		if !sa.IsSym && !sb.IsSym {
			switch v.Op {
			case token.LSS:
				return c.Bool(sa.Const < sb.Const)
			case token.GTR:
				return c.Bool(sa.Const > sb.Const)
			}
		}
	}
	if _, ok := a.(*FloatV); ok {
		return &FloatV{}
	}
	fail("unsupported binop %v on %T,%T in %s", v.Op, a, b, f.fn.String())
	return nil
}

// equal is Go's == on non-integer values.
func (x *Exec) equal(a, b Val) *Term {
	c := x.C
	switch av := a.(type) {
	case *Term:
		return c.Eq(av, b.(*Term))
	case *PtrV:
		bv := b.(*PtrV)
		if len(av.Alts) == 0 {
			return x.isNilPtr(bv)
		}
		if len(bv.Alts) == 0 {
			return x.isNilPtr(av)
		}
		// both nil, or same object and path
		res := c.And(x.isNilPtr(av), x.isNilPtr(bv))
		for _, p := range av.Alts {
			for _, q := range bv.Alts {
				if p.Obj == q.Obj && len(p.Path) == len(q.Path) {
					same := c.And(p.G, q.G)
					for i := range p.Path {
						if p.Path[i].Field != q.Path[i].Field {
							same = c.False
							break
						}
						if p.Path[i].Field < 0 {
							same = c.And(same, c.Eq(p.Path[i].Idx, q.Path[i].Idx))
						}
					}
					res = c.Or(res, same)
				}
			}
		}
		return res
	case *IfaceV:
		bv := b.(*IfaceV)
		aNil := av.IsNil.IsConst() && av.IsNil.C == 1
		bNil := bv.IsNil.IsConst() && bv.IsNil.C == 1
		if aNil {
			return bv.IsNil
		}
		if bNil {
			return av.IsNil
		}
		if av == bv {
			return c.True
		}
		// identity of error values: sentinel objects compare by pointer
		if av.Typ != nil && bv.Typ != nil && types.Identical(av.Typ, bv.Typ) {
			if _, ok := av.V.(*PtrV); ok {
				return c.And(c.Not(av.IsNil), c.Not(bv.IsNil), x.equal(av.V, bv.V))
			}
		}
		if av.Typ != nil && bv.Typ != nil && !types.Identical(av.Typ, bv.Typ) {
			return c.And(av.IsNil, bv.IsNil)
		}
		fail("comparison of opaque interface values")
	case *StructV:
		bv := b.(*StructV)
		res := c.True
		for i := range av.F {
			res = c.And(res, x.equal(av.F[i], bv.F[i]))
		}
		return res
	case *ArrayV:
		bv, ok := b.(*ArrayV)
		if !ok {
			bv = x.tableToArray(b.(*TableV)).(*ArrayV)
		}
		res := c.True
		for i := range av.E {
			res = c.And(res, x.equal(av.E[i], bv.E[i]))
		}
		return res
	case *TableV:
		return x.equal(x.tableToArray(av), b)
	case *StringV:
		bv := b.(*StringV)
		if !av.IsSym && !bv.IsSym {
			return c.Bool(av.Const == bv.Const)
		}
		sa, sb := x.strSlice(av), x.strSlice(bv)
		return x.bytesEqual(sa, sb)
	case *SliceV: // only comparison with nil is legal
		bv := b.(*SliceV)
		if bv.Obj == nil {
			return c.Bool(av.Obj == nil)
		}
		if av.Obj == nil {
			return c.Bool(bv.Obj == nil)
		}
	case *FuncV:
		bv, _ := b.(*FuncV)
		return c.Bool((av == nil) == (bv == nil) && (av == nil || av.Fn == bv.Fn))
	case *ChanV:
		bv := b.(*ChanV)
		return c.Bool(av.NonNil == bv.NonNil)
	case *MapV:
		bv, _ := b.(*MapV)
		return c.Bool(av == bv)
	}
	fail("unsupported equality on %T", a)
	return nil
}

// bytesEqual compares two byte slices; at least one must have a concrete length.
func (x *Exec) bytesEqual(a, b *SliceV) *Term {
	c := x.C
	if !a.Len.IsConst() {
		a, b = b, a
	}
	if !a.Len.IsConst() {
		fail("comparison of two symbolic-length byte strings")
	}
	res := c.Eq(a.Len, b.Len)
	for i := uint64(0); i < a.Len.C; i++ {
		ea := x.sliceElem(a, x.i64(int64(i))).(*Term)
		eb := x.sliceElem(b, x.i64(int64(i))).(*Term)
		res = c.And(res, c.Eq(ea, eb))
	}
	return res
}

// ---------------------------------------------------------------- calls

func (x *Exec) callOperands(f *frame, call *ssa.CallCommon) (Val, []Val) {
	args := make([]Val, 0, len(call.Args)+1)
	var fnv Val
	if call.IsInvoke() {
		fnv = x.operand(f, call.Value) // interface value
	} else {
		switch call.Value.(type) {
		case *ssa.Builtin:
			fnv = call.Value
		default:
			fnv = x.operand(f, call.Value)
		}
	}
	for _, a := range call.Args {
		args = append(args, x.operand(f, a))
	}
	return fnv, args
}

func (x *Exec) doCall(f *frame, call *ssa.CallCommon, fnv Val, args []Val, p token.Pos) Val {
	if call.IsInvoke() {
		iv := fnv.(*IfaceV)
		name := call.Method.FullName()
		if in, ok := x.Intrinsics[name]; ok {
			x.StubCalls[name]++
			return in(x, f, call, append([]Val{iv}, args...), f.g)
		}
		x.panicIf(f, iv.IsNil, "method call on nil interface", p)
		if iv.Typ == nil {
			fail("invoke %s on opaque interface in %s", name, f.fn.String())
		}
		ms := x.Prog.MethodSets.MethodSet(iv.Typ)
		sel := ms.Lookup(call.Method.Pkg(), call.Method.Name())
		if sel == nil {
			fail("method %s not found on %v", call.Method.Name(), iv.Typ)
		}
		m := x.Prog.MethodValue(sel)
		return x.callFn(f, m, append([]Val{iv.V}, args...), nil, call, p)
	}
	switch fv := fnv.(type) {
	case *ssa.Builtin:
		return x.builtin(f, fv, call, args, p)
	case *FuncV:
		if fv == nil {
			x.panicIf(f, x.C.True, "call of nil function", p)
			return x.zeroResult(call.Signature())
		}
		return x.callFn(f, fv.Fn, args, fv.Binds, call, p)
	}
	fail("call of %T", fnv)
	return nil
}

func (x *Exec) callFn(f *frame, fn *ssa.Function, args []Val, binds []Val, call *ssa.CallCommon, p token.Pos) Val {
	name := fn.String()
	if fn.Origin() != nil {
		// generic instance: also try the origin name
		if in, ok := x.Intrinsics[fn.Origin().String()]; ok {
			x.StubCalls[fn.Origin().String()]++
			return in(x, f, call, args, f.g)
		}
	}
	if in, ok := x.Intrinsics[name]; ok {
		x.StubCalls[name]++
		return in(x, f, call, args, f.g)
	}
	if x.Trace {
		desc := ""
		for i, a := range args {
			if t, ok := a.(*Term); ok {
				if t.IsConst() {
					desc += fmt.Sprintf(" a%d=%d", i, t.C)
				} else {
					desc += fmt.Sprintf(" a%d=sym", i)
				}
			}
		}
		fmt.Printf("%scall %s%s\n", strings.Repeat("  ", x.depth), name, desc)
	}
	return x.Call(fn, args, binds, f.g)
}

func (x *Exec) builtin(f *frame, b *ssa.Builtin, call *ssa.CallCommon, args []Val, p token.Pos) Val {
	c := x.C
	switch b.Name() {
	case "len":
		switch a := args[0].(type) {
		case *SliceV:
			return a.Len
		case *StringV:
			if !a.IsSym {
				return x.i64(int64(len(a.Const)))
			}
			return a.S.Len
		case *ArrayV:
			return x.i64(int64(len(a.E)))
		case *MapV:
			if a == nil {
				return x.i64(0)
			}
			return x.i64(int64(len(a.Keys)))
		}
	case "cap":
		switch a := args[0].(type) {
		case *SliceV:
			return a.Cap
		}
	case "min", "max":
		res := args[0].(*Term)
		_, sg, _ := widthOf(call.Args[0].Type())
		for _, a := range args[1:] {
			at := a.(*Term)
			// canonical operand order, so that max(p,q) and max(q,p) are the identical term
			lo, hi := res, at
			if lo.ID > hi.ID {
				lo, hi = hi, lo
			}
			var lt *Term // lo < hi
			if sg {
				lt = c.Slt(lo, hi)
			} else {
				lt = c.Ult(lo, hi)
			}
			if b.Name() == "max" {
				res = c.Ite(lt, hi, lo)
			} else {
				res = c.Ite(lt, lo, hi)
			}
		}
		return res
	case "append":
		return x.appendSlice(f, call, args, p)
	case "copy":
		return x.copyBuiltin(f, args, p)
	case "print", "println", "close":
		return nil
	case "ssa:wrapnilchk":
		return args[0]
	}
	fail("unsupported builtin %s on %T", b.Name(), args[0])
	return nil
}

// appendSlice models append(s, more...) for a bounded number of appended elements; capacity growth
// reallocates into a fresh array only when the capacities are concrete; otherwise exceeding cap is a failure.
func (x *Exec) appendSlice(f *frame, call *ssa.CallCommon, args []Val, p token.Pos) Val {
	c := x.C
	s := args[0].(*SliceV)
	var more *SliceV
	switch m := args[1].(type) {
	case *SliceV:
		more = m
	case *StringV:
		more = x.strSlice(m)
	}
	if !more.Len.IsConst() {
		fail("append of a symbolic number of elements in %s", f.fn.String())
	}
	n := int(more.Len.C)
	if n == 0 {
		return s
	}
	et := call.Args[0].Type().Underlying().(*types.Slice).Elem()
	// capacity check
	need := c.Add(s.Len, x.i64(int64(n)))
	fits := c.Ule(need, s.Cap)
	if s.Obj == nil || (fits.IsConst() && fits.C == 0) {
		// grow: new backing array
		if !s.Len.IsConst() {
			// symbolic length with a small upper bound: reallocate to a generous capacity (cap() is not Go's growth
			// formula; elements beyond Len are unobservable)
			ub := s.Len.UMax()
			if ub > 256 {
				fail("append growing a slice of unbounded symbolic length in %s", f.fn.String())
			}
			ncap := int(ub) + n + 16
			at := types.NewArray(et, int64(ncap))
			na := x.zero(at)
			if t, ok := na.(*TableV); ok {
				na = x.tableToArray(t)
			}
			arr := na.(*ArrayV)
			if s.Obj != nil {
				for i := 0; i < int(ub); i++ {
					arr.E[i] = x.sliceElem(s, x.i64(int64(i)))
				}
			}
			o := x.newObj("append@"+f.fn.Name(), at, arr)
			ns := &SliceV{Obj: o, Off: x.i64(0), Len: s.Len, Cap: x.i64(int64(ncap))}
			for i := 0; i < n; i++ {
				el := x.sliceElem(more, x.i64(int64(i)))
				path := []PathEl{{Field: -1, Idx: c.Add(ns.Len, x.i64(int64(i)))}}
				o.V = x.storePath(o.V, path, el, c.True)
			}
			ns.Len = need
			return ns
		}
		old := int(s.Len.C)
		ncap := max(2*old, old+n, 4)
		at := types.NewArray(et, int64(ncap))
		na := x.zero(at)
		if t, ok := na.(*TableV); ok {
			na = x.tableToArray(t)
		}
		arr := na.(*ArrayV)
		for i := 0; i < old; i++ {
			arr.E[i] = x.sliceElem(s, x.i64(int64(i)))
		}
		for i := 0; i < n; i++ {
			arr.E[old+i] = x.sliceElem(more, x.i64(int64(i)))
		}
		o := x.newObj("append@"+f.fn.Name(), at, arr)
		return &SliceV{Obj: o, Off: x.i64(0), Len: x.i64(int64(old + n)), Cap: x.i64(int64(ncap))}
	}
	if !(fits.IsConst() && fits.C == 1) {
		// capacity exceeded on some paths: outside the model
		x.addPanic(c.And(f.g, c.Not(fits)), "model: append beyond capacity", x.pos(p, f.fn))
	}
	for i := 0; i < n; i++ {
		el := x.sliceElem(more, x.i64(int64(i)))
		path := append(append([]PathEl(nil), s.Path...), PathEl{Field: -1, Idx: c.Add(s.Off, s.Len, x.i64(int64(i)))})
		s.Obj.V = x.storePath(s.Obj.V, path, el, f.g)
	}
	return &SliceV{Obj: s.Obj, Path: s.Path, Off: s.Off, Len: need, Cap: s.Cap}
}

func (x *Exec) copyBuiltin(f *frame, args []Val, p token.Pos) Val {
	c := x.C
	dst := args[0].(*SliceV)
	var src *SliceV
	switch s := args[1].(type) {
	case *SliceV:
		src = s
	case *StringV:
		src = x.strSlice(s)
	}
	n := c.Ite(c.Ult(dst.Len, src.Len), dst.Len, src.Len)
	if dst.Obj == nil || src.Obj == nil {
		return n
	}
	// bound on the number of copied elements
	if n.UMax() > 4096 {
		fail("copy with unbounded length in %s", f.fn.String())
	}
	maxN := int(n.UMax())
	// read all sources first (memmove semantics), then write
	vals := make([]Val, maxN)
	for i := 0; i < maxN; i++ {
		vals[i] = x.sliceElem(src, x.i64(int64(i)))
	}
	for i := 0; i < maxN; i++ {
		g := c.And(f.g, c.Ult(x.i64(int64(i)), n))
		if g.IsConst() && g.C == 0 {
			continue
		}
		path := append(append([]PathEl(nil), dst.Path...), PathEl{Field: -1, Idx: c.Add(dst.Off, x.i64(int64(i)))})
		dst.Obj.V = x.storePath(dst.Obj.V, path, vals[i], g)
	}
	return n
}

// ---------------------------------------------------------------- loop analysis

type bitscanInfo struct {
	phiIdx int
}

type loop struct {
	header   *ssa.BasicBlock
	blocks   []*ssa.BasicBlock // in function RPO order, header first
	contains map[*ssa.BasicBlock]bool
	parent   *loop
	liveOut  []ssa.Value
	bitscan  *bitscanInfo
}

type loopInfo struct {
	rejoin map[[2]*ssa.BasicBlock]bool
	order  []*ssa.BasicBlock          // RPO ignoring back edges
	header map[*ssa.BasicBlock]*loop  // header -> loop
	inner  map[*ssa.BasicBlock]*loop  // innermost loop containing the block
	loops  []*loop
}

func (x *Exec) loops(fn *ssa.Function) *loopInfo {
	if li, ok := x.loopCache[fn]; ok {
		return li
	}
	li := &loopInfo{header: map[*ssa.BasicBlock]*loop{}, inner: map[*ssa.BasicBlock]*loop{}}
	// back edges: u -> h with h dominating u
	isBack := func(u, h *ssa.BasicBlock) bool { return h.Dominates(u) }
	// RPO ignoring back edges
	seen := map[*ssa.BasicBlock]bool{}
	var post []*ssa.BasicBlock
	var dfs func(b *ssa.BasicBlock)
	dfs = func(b *ssa.BasicBlock) {
		seen[b] = true
		for _, s := range b.Succs {
			if !seen[s] && !isBack(b, s) {
				dfs(s)
			}
		}
		post = append(post, b)
	}
	dfs(fn.Blocks[0])
	for i := len(post) - 1; i >= 0; i-- {
		li.order = append(li.order, post[i])
	}
	rpo := map[*ssa.BasicBlock]int{}
	for i, b := range li.order {
		rpo[b] = i
	}
	// natural loops
	for _, u := range li.order {
		for _, h := range u.Succs {
			if !isBack(u, h) {
				continue
			}
			L := li.header[h]
			if L == nil {
				L = &loop{header: h, contains: map[*ssa.BasicBlock]bool{h: true}}
				li.header[h] = L
				li.loops = append(li.loops, L)
			}
			// blocks that reach u without passing through h
			stack := []*ssa.BasicBlock{u}
			for len(stack) > 0 {
				b := stack[len(stack)-1]
				stack = stack[:len(stack)-1]
				if L.contains[b] {
					continue
				}
				L.contains[b] = true
				for _, p := range b.Preds {
					if _, reachable := rpo[p]; reachable {
						stack = append(stack, p)
					}
				}
			}
		}
	}
	for _, L := range li.loops {
		for _, b := range li.order {
			if L.contains[b] {
				L.blocks = append(L.blocks, b)
			}
		}
		if L.blocks[0] != L.header {
			fail("irreducible loop in %s", fn.String())
		}
	}
	// nesting: parent = smallest strictly containing loop
	sort.Slice(li.loops, func(i, j int) bool { return len(li.loops[i].blocks) < len(li.loops[j].blocks) })
	for i, L := range li.loops {
		for _, M := range li.loops[i+1:] {
			if M != L && M.contains[L.header] && len(M.blocks) > len(L.blocks) {
				L.parent = M
				break
			}
		}
	}
	for _, b := range li.order {
		for _, L := range li.loops { // sorted by size: first hit is innermost
			if L.contains[b] {
				li.inner[b] = L
				break
			}
		}
	}
	// live-out values and bit-scan recognition
	for _, L := range li.loops {
		for _, b := range L.blocks {
			for _, ins := range b.Instrs {
				v, ok := ins.(ssa.Value)
				if !ok {
					continue
				}
				refs := v.Referrers()
				if refs == nil {
					continue
				}
				for _, r := range *refs {
					if !L.contains[r.Block()] {
						L.liveOut = append(L.liveOut, v)
						break
					}
				}
			}
		}
		L.bitscan = recogniseBitscan(L)
	}
	x.loopCache[fn] = li
	return li
}

func isConstInt(v ssa.Value, want int64) bool {
	k, ok := v.(*ssa.Const)
	if !ok || k.Value == nil || k.Value.Kind() != constant.Int {
		return false
	}
	if i, ok := constant.Int64Val(k.Value); ok {
		return i == want
	}
	return false
}

// recogniseBitscan matches
//
//	header: x = phi [entry: X0, back: x', ...]; if x != 0 goto body else exit   (or x == 0 with swapped targets)
//	every back-edge value x' is  x & (x - 1)  or  x ^ (x & -x)
func recogniseBitscan(L *loop) *bitscanInfo {
	H := L.header
	term, ok := H.Instrs[len(H.Instrs)-1].(*ssa.If)
	if !ok {
		return nil
	}
	cmp, ok := term.Cond.(*ssa.BinOp)
	if !ok || (cmp.Op != token.NEQ && cmp.Op != token.EQL) || !isConstInt(cmp.Y, 0) {
		return nil
	}
	phi, ok := cmp.X.(*ssa.Phi)
	if !ok || phi.Block() != H {
		return nil
	}
	if w, _, ok := widthOf(phi.Type()); !ok || w != 64 {
		return nil
	}
	inLoop, outLoop := H.Succs[0], H.Succs[1]
	if cmp.Op == token.EQL {
		inLoop, outLoop = outLoop, inLoop
	}
	if !L.contains[inLoop] || L.contains[outLoop] {
		return nil
	}
	// the header must contain only phis, the comparison and the branch
	for _, ins := range H.Instrs {
		switch ins.(type) {
		case *ssa.Phi, *ssa.If, *ssa.DebugRef:
		case *ssa.BinOp:
			if ins != ssa.Instruction(cmp) {
				return nil
			}
		default:
			return nil
		}
	}
	phiIdx := -1
	for i, ins := range H.Instrs {
		if ins == ssa.Instruction(phi) {
			phiIdx = i
		}
	}
	for i, p := range H.Preds {
		if !L.contains[p] {
			continue
		}
		if !isClearLowest(phi.Edges[i], phi) {
			return nil
		}
	}
	return &bitscanInfo{phiIdx: phiIdx}
}

func isClearLowest(v ssa.Value, x ssa.Value) bool {
	b, ok := v.(*ssa.BinOp)
	if !ok {
		return false
	}
	other := func(b *ssa.BinOp, x ssa.Value) ssa.Value {
		if b.X == x {
			return b.Y
		}
		if b.Y == x {
			return b.X
		}
		return nil
	}
	switch b.Op {
	case token.AND: // x & (x - 1)
		o := other(b, x)
		if o == nil {
			return false
		}
		s, ok := o.(*ssa.BinOp)
		return ok && s.Op == token.SUB && s.X == x && isConstInt(s.Y, 1)
	case token.XOR: // x ^ (x & -x)
		o := other(b, x)
		if o == nil {
			return false
		}
		a, ok := o.(*ssa.BinOp)
		if !ok || a.Op != token.AND {
			return false
		}
		n := other(a, x)
		if n == nil {
			return false
		}
		u, ok := n.(*ssa.UnOp)
		return ok && u.Op == token.SUB && u.X == x
	}
	return false
}

// Note records a named counter for the evidence.
func (x *Exec) Note(name string, v int) { x.Notes[name] += v }

// rejoins reports whether every path from d (which dominates b) reaches b: no return, panic, loop back edge or
// loop exit in between. Then the guard of b equals the guard of d.
func (li *loopInfo) rejoins(d, b *ssa.BasicBlock) bool {
	if li.rejoin == nil {
		li.rejoin = map[[2]*ssa.BasicBlock]bool{}
	}
	key := [2]*ssa.BasicBlock{d, b}
	if v, ok := li.rejoin[key]; ok {
		return v
	}
	L := li.inner[d]
	seen := map[*ssa.BasicBlock]bool{}
	ok := true
	var walk func(x *ssa.BasicBlock)
	walk = func(x *ssa.BasicBlock) {
		if !ok || x == b || seen[x] {
			return
		}
		seen[x] = true
		if len(x.Succs) == 0 {
			ok = false // return or panic
			return
		}
		for _, s := range x.Succs {
			if s == d || s.Dominates(x) { // back edge
				ok = false
				return
			}
			if L != nil && !L.contains[s] { // leaves the loop
				ok = false
				return
			}
			if li.inner[s] != L && s != b {
				// entering a nested loop: its exits are not tracked here
				ok = false
				return
			}
			walk(s)
		}
	}
	walk(d)
	li.rejoin[key] = ok
	return ok
}
