// Package exec is a guarded single-pass symbolic executor over go/ssa.
package exec

import (
	"fmt"
	"go/types"

	"golang.org/x/tools/go/ssa"

	"vp/sym"
)

type Term = sym.Term

// Val is a symbolic Go value:
//
//	*Term      ints, bools
//	*StructV   struct values
//	*ArrayV    array values
//	*TableV    constant integer tables (views into dumped globals)
//	*PtrV      pointers (set of guarded alternatives; empty = nil)
//	*SliceV    slices
//	*StringV   strings
//	*FuncV     function values / closures
//	*IfaceV    interface values
//	*TupleV    multiple results
//	*MapV      constant maps
type Val interface{}

type StructV struct{ F []Val }
type ArrayV struct{ E []Val }
type TupleV struct{ E []Val }

// Table is a constant multi-dimensional integer table.
type Table struct {
	Data  []uint64
	ElemW uint8
}

// TableV is a view: remaining dimensions Dims starting at offset Off, with pending symbolic indices.
type TableV struct {
	T    *Table
	Off  int
	Dims []int
	Sym  []symIdx // symbolic indices already applied (outermost first)
}

type symIdx struct {
	Idx    *Term
	N      int
	Stride int
}

type PathEl struct {
	Field int   // >= 0: struct field
	Idx   *Term // Field < 0: array index (64-bit term)
}

type PtrAlt struct {
	G    *Term
	Obj  *Obj
	Path []PathEl
}

type PtrV struct{ Alts []PtrAlt }

type SliceV struct {
	Obj           *Obj // nil for the nil slice
	Path          []PathEl
	Off, Len, Cap *Term // 64-bit
}

type StringV struct {
	Const string
	IsSym bool
	S     *SliceV // symbolic strings are byte slices
}

type FuncV struct {
	Fn    *ssa.Function
	Binds []Val
	// bound method closure over an interface-less receiver is expressed by Fn being the bound wrapper
}

type IfaceV struct {
	IsNil *Term      // 1-bit
	Typ   types.Type // dynamic type when not nil (nil if unknown/opaque)
	V     Val
}

type MapV struct {
	Keys []uint64
	Vals []Val
	KeyW uint8
	Zero Val
}

type Obj struct {
	ID     int
	Name   string
	V      Val
	Typ    types.Type
	AllocG *Term // path guard under which the object was allocated (nil = unconditional)
}

// ExecError is raised (by panic) when the executor meets something it cannot encode. Checks fail closed on it.
type ExecError struct{ Msg string }

func (e *ExecError) Error() string { return e.Msg }

func fail(format string, a ...any) {
	panic(&ExecError{fmt.Sprintf(format, a...)})
}

// ---------------------------------------------------------------- types

func widthOf(t types.Type) (w uint8, signed bool, ok bool) {
	switch u := t.Underlying().(type) {
	case *types.Basic:
		switch u.Kind() {
		case types.Bool, types.UntypedBool:
			return 1, false, true
		case types.Int8:
			return 8, true, true
		case types.Uint8:
			return 8, false, true
		case types.Int16:
			return 16, true, true
		case types.Uint16:
			return 16, false, true
		case types.Int32, types.UntypedRune:
			return 32, true, true
		case types.Uint32:
			return 32, false, true
		case types.Int64, types.Int, types.UntypedInt:
			return 64, true, true
		case types.Uint64, types.Uint, types.Uintptr:
			return 64, false, true
		}
	}
	return 0, false, false
}

func (x *Exec) zero(t types.Type) Val {
	switch u := t.Underlying().(type) {
	case *types.Basic:
		if w, _, ok := widthOf(u); ok {
			return x.C.Const(w, 0)
		}
		if u.Info()&types.IsString != 0 {
			return &StringV{}
		}
		if u.Kind() == types.UnsafePointer {
			return &PtrV{}
		}
		if u.Info()&types.IsFloat != 0 {
			return &FloatV{}
		}
	case *types.Struct:
		s := &StructV{F: make([]Val, u.NumFields())}
		for i := range s.F {
			s.F[i] = x.zero(u.Field(i).Type())
		}
		return s
	case *types.Array:
		n := int(u.Len())
		if w, _, ok := widthOf(u.Elem()); ok && n > 256 {
			// large zero tables stay compact until written
			return &TableV{T: &Table{Data: make([]uint64, n), ElemW: w}, Dims: []int{n}}
		}
		a := &ArrayV{E: make([]Val, n)}
		if n > 0 {
			z := x.zero(u.Elem())
			for i := range a.E {
				a.E[i] = z // values are immutable, sharing is fine
			}
		}
		return a
	case *types.Pointer:
		return &PtrV{}
	case *types.Slice:
		return &SliceV{Off: x.i64(0), Len: x.i64(0), Cap: x.i64(0)}
	case *types.Signature:
		return (*FuncV)(nil)
	case *types.Interface:
		return &IfaceV{IsNil: x.C.True}
	case *types.Map:
		return (*MapV)(nil)
	case *types.Chan:
		return &ChanV{}
	case *types.Tuple:
		tv := &TupleV{E: make([]Val, u.Len())}
		for i := range tv.E {
			tv.E[i] = x.zero(u.At(i).Type())
		}
		return tv
	}
	fail("zero value of unsupported type %v", t)
	return nil
}

// FloatV is an opaque float (never inspected by the properties we encode).
type FloatV struct{}

// ChanV is an opaque channel; only nil-ness is tracked.
type ChanV struct{ NonNil bool }

func (x *Exec) i64(v int64) *Term { return x.C.Const(64, uint64(v)) }

// ---------------------------------------------------------------- merging

// merge returns ite(g, a, b) on values.
func (x *Exec) merge(g *Term, a, b Val) Val {
	if g.IsConst() {
		if g.C == 1 {
			return a
		}
		return b
	}
	if a == b {
		return a
	}
	switch av := a.(type) {
	case *Term:
		bv, ok := b.(*Term)
		if !ok {
			fail("merge: term vs %T", b)
		}
		return x.C.Ite(g, av, bv)
	case *StructV:
		bv := b.(*StructV)
		r := &StructV{F: make([]Val, len(av.F))}
		for i := range av.F {
			r.F[i] = x.merge(g, av.F[i], bv.F[i])
		}
		return r
	case *ArrayV:
		switch bv := b.(type) {
		case *ArrayV:
			r := &ArrayV{E: make([]Val, len(av.E))}
			for i := range av.E {
				r.E[i] = x.merge(g, av.E[i], bv.E[i])
			}
			return r
		case *TableV:
			return x.merge(g, a, x.tableToArray(bv))
		}
	case *TableV:
		if bt, ok := b.(*TableV); ok && bt.T == av.T && bt.Off == av.Off && len(bt.Sym) == 0 && len(av.Sym) == 0 {
			return a
		}
		return x.merge(g, x.tableToArray(av), b)
	case *TupleV:
		bv := b.(*TupleV)
		r := &TupleV{E: make([]Val, len(av.E))}
		for i := range av.E {
			r.E[i] = x.merge(g, av.E[i], bv.E[i])
		}
		return r
	case *PtrV:
		bv := b.(*PtrV)
		r := &PtrV{}
		ng := x.C.Not(g)
		for _, al := range av.Alts {
			x.addAlt(r, PtrAlt{G: x.C.And(g, al.G), Obj: al.Obj, Path: al.Path})
		}
		for _, al := range bv.Alts {
			x.addAlt(r, PtrAlt{G: x.C.And(ng, al.G), Obj: al.Obj, Path: al.Path})
		}
		return r
	case *SliceV:
		bv := b.(*SliceV)
		if av.Obj == nil && bv.Obj == nil {
			return av
		}
		if av.Obj == nil {
			// nil slice vs real slice: keep the object, merge the header
			return &SliceV{Obj: bv.Obj, Path: bv.Path, Off: bv.Off, Len: x.C.Ite(g, av.Len, bv.Len), Cap: x.C.Ite(g, av.Cap, bv.Cap)}
		}
		if bv.Obj == nil {
			return &SliceV{Obj: av.Obj, Path: av.Path, Off: av.Off, Len: x.C.Ite(g, av.Len, bv.Len), Cap: x.C.Ite(g, av.Cap, bv.Cap)}
		}
		if av.Obj != bv.Obj || !samePath(av.Path, bv.Path) {
			fail("merge of slices over different backing arrays (%s vs %s)", av.Obj.Name, bv.Obj.Name)
		}
		return &SliceV{Obj: av.Obj, Path: av.Path, Off: x.C.Ite(g, av.Off, bv.Off), Len: x.C.Ite(g, av.Len, bv.Len), Cap: x.C.Ite(g, av.Cap, bv.Cap)}
	case *StringV:
		bv := b.(*StringV)
		if !av.IsSym && !bv.IsSym && av.Const == bv.Const {
			return av
		}
		return &StringV{IsSym: true, S: x.merge(g, x.strSlice(av), x.strSlice(bv)).(*SliceV)}
	case *FuncV:
		bv, _ := b.(*FuncV)
		if av == nil && bv == nil {
			return av
		}
		// a function variable that is nil on one side (e.g. a captured closure cell before its guarded initial
		// store): keep the function; a call through the nil side would be a nil-call panic in the program itself
		if av == nil {
			return bv
		}
		if bv == nil {
			return av
		}
		if av != nil && bv != nil && av.Fn == bv.Fn && len(av.Binds) == len(bv.Binds) {
			r := &FuncV{Fn: av.Fn, Binds: make([]Val, len(av.Binds))}
			for i := range av.Binds {
				r.Binds[i] = x.merge(g, av.Binds[i], bv.Binds[i])
			}
			return r
		}
		fail("merge of different function values")
	case *IfaceV:
		bv := b.(*IfaceV)
		r := &IfaceV{IsNil: x.C.Ite(g, av.IsNil, bv.IsNil)}
		aNil := av.IsNil.IsConst() && av.IsNil.C == 1
		bNil := bv.IsNil.IsConst() && bv.IsNil.C == 1
		switch {
		case aNil:
			r.Typ, r.V = bv.Typ, bv.V
		case bNil:
			r.Typ, r.V = av.Typ, av.V
		case av.Typ != nil && bv.Typ != nil && types.Identical(av.Typ, bv.Typ):
			r.Typ = av.Typ
			r.V = x.merge(g, av.V, bv.V)
		default:
			r.Typ, r.V = nil, nil // opaque
		}
		return r
	case *MapV:
		if bm, ok := b.(*MapV); ok && bm == av {
			return a
		}
	case *FloatV:
		return a
	case *ChanV:
		bv := b.(*ChanV)
		if av.NonNil == bv.NonNil {
			return a
		}
	case nil:
		if b == nil {
			return nil
		}
	}
	fail("merge: unsupported %T / %T", a, b)
	return nil
}

func samePath(a, b []PathEl) bool {
	if len(a) != len(b) {
		return false
	}
	for i := range a {
		if a[i].Field != b[i].Field || a[i].Idx != b[i].Idx {
			return false
		}
	}
	return true
}

func (x *Exec) addAlt(p *PtrV, al PtrAlt) {
	if al.G.IsConst() && al.G.C == 0 {
		return
	}
	for i := range p.Alts {
		if p.Alts[i].Obj == al.Obj && samePath(p.Alts[i].Path, al.Path) {
			p.Alts[i].G = x.C.Or(p.Alts[i].G, al.G)
			return
		}
	}
	p.Alts = append(p.Alts, al)
}

// isNilPtr is the condition under which p is nil.
func (x *Exec) isNilPtr(p *PtrV) *Term {
	if len(p.Alts) == 0 {
		return x.C.True
	}
	gs := make([]*Term, len(p.Alts))
	for i, a := range p.Alts {
		gs[i] = a.G
	}
	return x.C.Not(x.C.Or(gs...))
}

// ---------------------------------------------------------------- tables

func (x *Exec) tableToArray(t *TableV) Val {
	if len(t.Sym) != 0 {
		fail("tableToArray with pending symbolic index")
	}
	if len(t.Dims) == 0 {
		return x.C.Const(t.T.ElemW, t.T.Data[t.Off])
	}
	n := t.Dims[0]
	stride := 1
	for _, d := range t.Dims[1:] {
		stride *= d
	}
	if n*stride > 1<<16 {
		fail("table too large to materialise (%d cells)", n*stride)
	}
	a := &ArrayV{E: make([]Val, n)}
	for i := range a.E {
		a.E[i] = x.tableToArray(&TableV{T: t.T, Off: t.Off + i*stride, Dims: t.Dims[1:]})
	}
	return a
}

func (x *Exec) tableIndex(t *TableV, idx *Term) Val {
	n := t.Dims[0]
	stride := 1
	for _, d := range t.Dims[1:] {
		stride *= d
	}
	nt := &TableV{T: t.T, Off: t.Off, Dims: t.Dims[1:], Sym: t.Sym}
	if idx.IsConst() {
		i := int(idx.C)
		if idx.C >= uint64(n) {
			i = 0 // out of range: a panic condition was recorded by the caller
		}
		nt.Off += i * stride
	} else {
		nt.Sym = append(append([]symIdx(nil), t.Sym...), symIdx{idx, n, stride})
	}
	if len(nt.Dims) == 0 {
		return x.tableLeaf(nt.T, nt.Off, nt.Sym)
	}
	return nt
}

func (x *Exec) tableLeaf(t *Table, off int, syms []symIdx) *Term {
	if len(syms) == 0 {
		return x.C.Const(t.ElemW, t.Data[off])
	}
	s := syms[0]
	return x.C.Mux(s.Idx, s.N, func(i int) *Term { return x.tableLeaf(t, off+i*s.Stride, syms[1:]) })
}

// ---------------------------------------------------------------- load / store on value trees

func (x *Exec) index(v Val, idx *Term) Val {
	switch a := v.(type) {
	case *ArrayV:
		if idx.IsConst() {
			if idx.C >= uint64(len(a.E)) {
				if len(a.E) == 0 {
					fail("index into empty array")
				}
				return a.E[0]
			}
			return a.E[idx.C]
		}
		return x.muxVals(idx, a.E)
	case *TableV:
		return x.tableIndex(a, idx)
	}
	fail("index of %T", v)
	return nil
}

func (x *Exec) muxVals(idx *Term, es []Val) Val {
	n := len(es)
	if n == 0 {
		fail("mux over empty array")
	}
	switch es[0].(type) {
	case *Term:
		return x.C.Mux(idx, n, func(i int) *Term { return es[i].(*Term) })
	}
	// generic: balanced merge over index bits
	var rec func(bit int, base int) Val
	rec = func(bit int, base int) Val {
		if base >= n {
			return nil
		}
		if bit < 0 {
			return es[base]
		}
		lo := rec(bit-1, base)
		hi := rec(bit-1, base|1<<bit)
		if hi == nil {
			return lo
		}
		return x.merge(x.C.Bit(idx, uint8(bit)), hi, lo)
	}
	nb := 0
	for (1 << nb) < n {
		nb++
	}
	return rec(nb-1, 0)
}

func (x *Exec) loadPath(v Val, path []PathEl) Val {
	for _, el := range path {
		if el.Field >= 0 {
			s, ok := v.(*StructV)
			if !ok {
				fail("field of %T", v)
			}
			v = s.F[el.Field]
		} else {
			v = x.index(v, el.Idx)
		}
	}
	return v
}

func (x *Exec) storePath(v Val, path []PathEl, nv Val, g *Term) Val {
	if len(path) == 0 {
		return x.merge(g, nv, v)
	}
	el := path[0]
	if el.Field >= 0 {
		s := v.(*StructV)
		r := &StructV{F: append([]Val(nil), s.F...)}
		r.F[el.Field] = x.storePath(s.F[el.Field], path[1:], nv, g)
		return r
	}
	if t, ok := v.(*TableV); ok {
		v = x.tableToArray(t)
	}
	a, ok := v.(*ArrayV)
	if !ok {
		fail("store index into %T", v)
	}
	r := &ArrayV{E: append([]Val(nil), a.E...)}
	if el.Idx.IsConst() {
		k := el.Idx.C
		if k < uint64(len(r.E)) {
			r.E[k] = x.storePath(a.E[k], path[1:], nv, g)
		}
		return r
	}
	for k := range r.E {
		hit := x.C.Eq(el.Idx, x.C.Const(el.Idx.W, uint64(k)))
		gk := x.C.And(g, hit)
		if gk.IsConst() && gk.C == 0 {
			continue
		}
		r.E[k] = x.storePath(a.E[k], path[1:], nv, gk)
	}
	return r
}

func (x *Exec) Load(p *PtrV) Val {
	if len(p.Alts) == 0 {
		fail("load through nil pointer (unguarded)")
	}
	var res Val
	for i := len(p.Alts) - 1; i >= 0; i-- {
		al := p.Alts[i]
		v := x.loadPath(al.Obj.V, al.Path)
		if res == nil {
			res = v
		} else {
			res = x.merge(al.G, v, res)
		}
	}
	return res
}

func (x *Exec) Store(p *PtrV, v Val, g *Term) {
	for _, al := range p.Alts {
		gg := x.C.And(g, al.G)
		if gg.IsConst() && gg.C == 0 {
			continue
		}
		// an object allocated under this very guard does not exist on other paths: the store is unconditional for it
		// (keeps freshly built locals such as composite literals constant instead of ite(g, v, zero))
		if al.Obj.AllocG != nil && al.Obj.AllocG == gg {
			gg = x.C.True
		}
		al.Obj.V = x.storePath(al.Obj.V, al.Path, v, gg)
	}
}

func (x *Exec) newObj(name string, t types.Type, v Val) *Obj {
	x.nObj++
	return &Obj{ID: x.nObj, Name: name, V: v, Typ: t}
}

func ptrTo(o *Obj, g *Term, path ...PathEl) *PtrV {
	return &PtrV{Alts: []PtrAlt{{G: g, Obj: o, Path: path}}}
}

func (x *Exec) extend(p *PtrV, el PathEl) *PtrV {
	r := &PtrV{Alts: make([]PtrAlt, len(p.Alts))}
	for i, al := range p.Alts {
		np := make([]PathEl, len(al.Path)+1)
		copy(np, al.Path)
		np[len(al.Path)] = el
		r.Alts[i] = PtrAlt{G: al.G, Obj: al.Obj, Path: np}
	}
	return r
}

// strSlice views a string as a byte slice value.
func (x *Exec) strSlice(s *StringV) *SliceV {
	if s.IsSym {
		return s.S
	}
	n := len(s.Const)
	if n == 0 {
		return &SliceV{Off: x.i64(0), Len: x.i64(0), Cap: x.i64(0)}
	}
	if o, ok := x.strObjs[s.Const]; ok {
		return &SliceV{Obj: o, Off: x.i64(0), Len: x.i64(int64(n)), Cap: x.i64(int64(n))}
	}
	a := &ArrayV{E: make([]Val, n)}
	for i := 0; i < n; i++ {
		a.E[i] = x.C.Const(8, uint64(s.Const[i]))
	}
	o := x.newObj("str:"+s.Const, nil, a)
	x.strObjs[s.Const] = o
	return &SliceV{Obj: o, Off: x.i64(0), Len: x.i64(int64(n)), Cap: x.i64(int64(n))}
}
