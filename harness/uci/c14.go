package uci

import (
	. "github.com/paulsonkoly/chess-3/chess"
	"github.com/paulsonkoly/chess-3/vp"
)

const (
	vpMaxClock = int64(1_000_000_000_000) // 10^12 ms
	vpMaxInc   = int64(1_000_000_000)     // 10^9 ms
)

func vpClock(prefix string) timeControl {
	tc := timeControl{
		wtime: vp.I64(prefix + "wtime"),
		btime: vp.I64(prefix + "btime"),
		winc:  vp.I64(prefix + "winc"),
		binc:  vp.I64(prefix + "binc"),
		mtime: vp.I64(prefix + "mtime"),
	}
	vp.Assume(tc.wtime >= 0)
	vp.Assume(tc.wtime <= vpMaxClock)
	vp.Assume(tc.btime >= 0)
	vp.Assume(tc.btime <= vpMaxClock)
	vp.Assume(tc.winc >= 0)
	vp.Assume(tc.winc <= vpMaxInc)
	vp.Assume(tc.binc >= 0)
	vp.Assume(tc.binc <= vpMaxInc)
	vp.Assume(tc.mtime >= 0)
	vp.Assume(tc.mtime <= vpMaxClock)
	return tc
}

// VpH_C14 checks the time budget for every clock state in the stated ranges.
func VpH_C14() {
	tc := vpClock("")
	stm := Color(vp.Bits("stm", 1))

	my, myInc := tc.wtime, tc.winc
	if stm == Black {
		my, myInc = tc.btime, tc.binc
	}
	_ = myInc
	// the GUI reports remaining time for the mover (>= 1 ms) or a fixed move time
	timed := my >= 1
	if tc.mtime >= 1 {
		timed = true
	}
	vp.Assume(timed)

	vp.Assert(tc.timedMode(stm), "timed-mode-recognised")

	hard := tc.hardLimit(stm)
	soft := tc.softLimit(stm)

	if tc.mtime >= 1 {
		vp.Assert(hard == tc.mtime, "movetime-hard-equals-movetime")
		vp.Assert(soft == tc.mtime, "movetime-soft-equals-movetime")
	} else {
		vp.Assert(hard > 0, "hard-positive")
		vp.Assert(hard <= my, "hard-not-later-than-remaining")
		if my > TimeSafetyMargin {
			vp.Assert(hard <= my-TimeSafetyMargin, "hard-keeps-margin")
		}
		vp.Assert(soft > 0 || my < PredictedMoves, "soft-positive-unless-tiny-clock")
	}
	// the timer is armed with time.Duration(hard) * time.Millisecond: must not overflow int64 nanoseconds
	vp.Assert(hard <= 9_223_372_036_854, "timer-conversion-no-overflow")
	vp.Cover("end")
}

// VpH_C14_indep: the deadline depends only on the mover's own clock (2-safety: two clock states that
// agree on the mover's fields and the move time give the same limits). Case split on the colour.
func VpH_C14_indep() {
	a := vpClock("a_")
	o := vpClock("o_")
	stm := Color(vp.Param("stm"))
	b := a
	if stm == White {
		b.btime, b.binc = o.btime, o.binc
		vp.Assume(a.wtime >= 1 || a.mtime >= 1)
	} else {
		b.wtime, b.winc = o.wtime, o.winc
		vp.Assume(a.btime >= 1 || a.mtime >= 1)
	}
	vp.Assert(a.hardLimit(stm) == b.hardLimit(stm), "hard-depends-only-on-mover")
	vp.Assert(a.softLimit(stm) == b.softLimit(stm), "soft-depends-only-on-mover")
	vp.Assert(a.timedMode(stm) == b.timedMode(stm), "timed-mode-depends-only-on-mover")
	vp.Cover("end")
}
