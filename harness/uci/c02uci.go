package uci

import (
	"github.com/paulsonkoly/chess-3/board"
	. "github.com/paulsonkoly/chess-3/chess"
	"github.com/paulsonkoly/chess-3/vp"
)

// VpH_C02_ucimove: the move-list gate of the `position` command. For an arbitrary valid position and EVERY string of
// the driver's length: a string is accepted only as a move that passes the pseudo-legality gate; a well-formed string
// (files a-h, ranks 1-8, optional promotion letter) is accepted iff the move it spells passes the gate, and then it is
// exactly that move that is returned; strings of other lengths are rejected.
func VpH_C02_ucimove() {
	stm := Color(vp.Param("stm"))
	n := vp.Param("len")
	b := board.VpSymBoard(stm)
	vp.Assume(board.VpValid(b))
	var s [6]byte
	for i := 0; i < n; i++ {
		s[i] = byte(vp.BitsI("ch", i, 8))
	}
	m, err := parseUCIMove(b, string(s[:n]))
	if n != 4 && n != 5 {
		vp.Assert(err != nil, "wrong-length-rejected")
		vp.Cover("end")
		return
	}
	wellFormed := s[0] >= 'a' && s[0] <= 'h' && s[1] >= '1' && s[1] <= '8' && s[2] >= 'a' && s[2] <= 'h' && s[3] >= '1' && s[3] <= '8'
	promo := NoPiece
	if n == 5 {
		switch s[4] {
		case 'q':
			promo = Queen
		case 'r':
			promo = Rook
		case 'b':
			promo = Bishop
		case 'n':
			promo = Knight
		default:
			wellFormed = false
		}
	}
	if err == nil {
		vp.Assert(b.IsPseudoLegal(m), "accepted-move-passed-the-pseudo-legality-gate")
	}
	if wellFormed {
		from := int(s[0]-'a') + int(s[1]-'1')*8
		to := int(s[2]-'a') + int(s[3]-'1')*8
		spelled := board.VpMove(from, to, promo)
		vp.Assert((err == nil) == b.IsPseudoLegal(spelled), "well-formed-string-accepted-iff-its-move-passes-the-gate")
		if err == nil {
			vp.Assert(m == spelled, "accepted-move-is-the-move-spelled")
		}
	}
	vp.Cover("end")
}
