package uci

import (
	"strconv"

	"github.com/paulsonkoly/chess-3/board"
	"github.com/paulsonkoly/chess-3/vp"
)

var vpOldBoard = &board.Board{}

// vpFenArgs gives the arguments of `position fen ...`. Under the engine it is intercepted together with
// board.FromFEN (which then returns an arbitrary symbolic board or an error). Natively (replay) it prints the FEN of
// exactly that board from the tape, or garbage when the tape says the parse fails, so that the real FromFEN
// reproduces the stub's result.
func vpFenArgs() []string {
	if vp.Bits("fromfen_ok", 1) == 0 {
		return []string{"fen", "not", "a", "fen", "at", "all", "!"}
	}
	pcs := " PNBRQK"
	place := ""
	for r := 7; r >= 0; r-- {
		empty := 0
		for f := 0; f < 8; f++ {
			c := vp.BitsI("cell", r*8+f, 4)
			if c&7 == 0 {
				empty++
				continue
			}
			if empty > 0 {
				place += strconv.Itoa(empty)
				empty = 0
			}
			ch := pcs[c&7]
			if c>>3 != 0 {
				ch += 'a' - 'A'
			}
			place += string(ch)
		}
		if empty > 0 {
			place += strconv.Itoa(empty)
		}
		if r > 0 {
			place += "/"
		}
	}
	cas := ""
	for i, ch := range "KQkq" {
		if vp.Bits("castles", 4)>>uint(i)&1 == 1 {
			cas += string(ch)
		}
	}
	if cas == "" {
		cas = "-"
	}
	ep := "-"
	if e := vp.Bits("ep", 6); e != 0 {
		ep = string(rune('a'+e&7)) + string(rune('1'+e>>3))
	}
	return []string{"fen", place, "w", cas, ep, strconv.Itoa(int(vp.Bits("fifty", 7))), strconv.Itoa(int(vp.Bits("fullmoves", 31)))}
}

// VpH_C11_position: `position fen ...` replaces the current position only by a successfully parsed board that passes
// the piece-count gate; otherwise the current position object stays in place.
func VpH_C11_position() {
	d := &Driver{board: vpOldBoard}
	d.handlePosition(vpFenArgs())
	parsedOK := vp.Bits("fromfen_ok", 1) == 1
	replaced := d.board != vpOldBoard
	invalid := vpInvalid()
	vp.Assert(!replaced || parsedOK, "position-replaced-only-after-successful-parse")
	vp.Assert(!replaced || !invalid, "position-replaced-only-if-piece-counts-plausible")
	vp.Assert(replaced || !parsedOK || invalid, "parsed-and-plausible-position-is-installed")
	vp.Cover("end")
}

// vpInvalid: the piece-count gate rejects the board described by the tape (natively re-parsed; under the engine
// intercepted to the gate's verdict on the stub's board).
func vpInvalid() bool {
	args := vpFenArgs()
	b, err := board.FromFEN(args[1] + " " + args[2] + " " + args[3] + " " + args[4] + " " + args[5] + " " + args[6])
	return err != nil || b.InvalidPieceCount()
}
