package uci

import (
	"strconv"

	"github.com/paulsonkoly/chess-3/board"
	. "github.com/paulsonkoly/chess-3/chess"
	"github.com/paulsonkoly/chess-3/move"
	"github.com/paulsonkoly/chess-3/search"
	"github.com/paulsonkoly/chess-3/vp"
)

// vpRecSearch records the options a `go` command hands to the search.
type vpRecSearch struct {
	got search.Options
	n   int
}

func (r *vpRecSearch) Go(b *board.Board, opts ...search.Option) (Score, move.Move, move.Move) {
	r.got = search.Options{Depth: MaxPlies, Nodes: -1, SoftNodes: -1}
	for _, o := range opts {
		o(&r.got)
	}
	r.n++
	return 0, 0, 0
}
func (r *vpRecSearch) Clear()       {}
func (r *vpRecSearch) ResizeTT(int) {}

// vpNumArg is the text of a numeric argument. Natively the decimal text of the tape value; under the engine it is
// intercepted together with parseInt/parseInt64, which then return that value.
func vpNumArg(name string) string { return strconv.Itoa(int(vp.I64(name))) }

// VpH_C06_godepth: `go depth N` with any N >= 1 reaches the search with a depth limit of at least 1 (so a non-final
// root cannot come back with the null move just because of the way N was converted).
func VpH_C06_godepth() {
	rec := &vpRecSearch{}
	d := &Driver{board: &board.Board{}, search: rec}
	n := vp.I64("depth")
	vp.Assume(n >= 1)
	d.handleGo([]string{"depth", vpNumArg("depth")})
	vp.Assert(rec.n == 1, "go-runs-exactly-one-search")
	vp.Assert(rec.got.Depth >= 1, "requested-depth-of-at-least-one-stays-at-least-one")
	vp.Assert(int64(rec.got.Depth) == min(n, MaxPlies), "requested-depth-is-passed-on-capped-at-the-maximum")
	vp.Cover("end")
}
