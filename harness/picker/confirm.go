package picker

// Native confirmation of contract-level counterexamples of the staged picker run: the real picker with the real
// generators on concrete positions.

import (
	"fmt"

	"github.com/paulsonkoly/chess-3/board"
	"github.com/paulsonkoly/chess-3/heur"
	"github.com/paulsonkoly/chess-3/move"
	"github.com/paulsonkoly/chess-3/movegen"
	"github.com/paulsonkoly/chess-3/stack"
	"github.com/paulsonkoly/chess-3/vp"
)

// vpC16Case runs the real picker to exhaustion with hash move number k of the position's generated moves (k beyond
// the list: foreign encodings derived from k) and checks C16's statement. Returns "" if all is well.
func vpC16Case(fen string, k int) string {
	b, err := board.FromFEN(fen)
	if err != nil || !board.VpValid(b) {
		return ""
	}
	ref := move.NewStore()
	ref.Push()
	movegen.GenNoisy(ref, b)
	movegen.GenNotNoisy(ref, b)
	var gen []move.Move
	for _, w := range ref.Frame() {
		gen = append(gen, w.Move)
	}
	var hash move.Move
	if k < len(gen) {
		hash = gen[k]
	} else {
		hash = move.Move((k * 2654435761) & 0x7fff)
	}
	ms := move.NewStore()
	ms.Push()
	ranker := heur.NewMoveRanker()
	hs := stack.New[heur.StackMove]()
	p := New(b, hash, ms, &ranker, hs)
	count := map[move.Move]int{}
	n := 0
	first := move.Move(0)
	for p.Next() {
		m := p.Move().Move
		if n == 0 {
			first = m
		}
		n++
		count[m]++
		if len(p.YieldedMoves()) != n {
			return "yielded-prefix-wrong"
		}
		if n > len(gen)+4 {
			return "yields-more-than-generated"
		}
	}
	if n != len(gen) {
		return "yield-count-differs-from-generated"
	}
	for _, m := range gen {
		if count[m] != 1 {
			return "generated-move-not-yielded-exactly-once"
		}
	}
	if b.IsPseudoLegal(hash) && first != hash {
		return "pseudo-legal-hash-move-not-first"
	}
	return ""
}

// VpV_C16_sweep looks for a concrete (position, hash move) on which the real picker violates C16's statement.
func VpV_C16_sweep() {
	n := 0
	for _, fen := range vp.Corpus() {
		b, err := board.FromFEN(fen)
		if err != nil || !board.VpValid(b) {
			continue
		}
		ref := move.NewStore()
		ref.Push()
		movegen.GenNoisy(ref, b)
		movegen.GenNotNoisy(ref, b)
		g := len(ref.Frame())
		for k := 0; k < g+3; k++ {
			n++
			if what := vpC16Case(fen, k); what != "" {
				vp.Confirmed(what, fen, k)
				fmt.Println("VP-CORPUS-POSITIONS", n)
				return
			}
		}
	}
	fmt.Println("VP-CORPUS-POSITIONS", n)
}

func VpV_C16_case() {
	what := vpC16Case(vp.Str("fen"), vp.Param("k"))
	vp.Assert(what == "", "real-picker-case "+what)
}
