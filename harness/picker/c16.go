package picker

import (
	"github.com/paulsonkoly/chess-3/board"
	. "github.com/paulsonkoly/chess-3/chess"
	"github.com/paulsonkoly/chess-3/heur"
	"github.com/paulsonkoly/chess-3/move"
	"github.com/paulsonkoly/chess-3/stack"
	"github.com/paulsonkoly/chess-3/vp"
)

const vpMaxGen = 3

// VpH_C16_run: the staged picker run to exhaustion. The generators, the pseudo-legality test and the rankers are
// replaced by their contracts (engine-side): GenNoisy appends an arbitrary duplicate-free list of at most nn moves
// that are captures or promotions on this board (VpNoisy, established for the real generator by VpH_C16_split),
// GenNotNoisy an arbitrary duplicate-free list of at most nq moves that are not; IsPseudoLegal(hash move) holds iff
// the hash move is one of them (C05); noisy ranks lie in the capture bands and quiet ranks in the quiet band (the band
// obligations of this check). Then: every generated move is yielded exactly once and nothing else is; the hash move
// comes first iff it is pseudo-legal; YieldedMoves() is the yielded prefix.
func VpH_C16_run() {
	b := &board.Board{}
	for sq := range b.SquaresToPiece {
		p := Piece(vp.BitsI("sqpiece", sq, 3))
		vp.Assume(p <= King)
		b.SquaresToPiece[sq] = p
	}
	b.EnPassant = Square(vp.Bits("ep", 6))
	b.STM = Color(vp.Bits("stm", 1))
	ms := move.NewStore()
	ms.Push()
	ranker := heur.NewMoveRanker()
	hs := stack.New[heur.StackMove]()
	hash := move.Move(vp.Bits("hash", 15))
	p := New(b, hash, ms, &ranker, hs)

	var yielded [2*vpMaxGen + 2]move.Move
	n := 0
	for k := 0; k < 2*vpMaxGen+2; k++ {
		if !p.Next() {
			break
		}
		yielded[k] = p.Move().Move
		n = k + 1
		vp.Assert(len(p.YieldedMoves()) == n, "yielded-prefix-grows-by-one")
	}
	vp.Assert(!p.Next(), "exhausted-picker-stays-exhausted")

	// the generated lists as the contracts produced them
	var gen [2 * vpMaxGen]move.Move
	g := vpGenCount()
	for i := 0; i < 2*vpMaxGen; i++ {
		gen[i] = vpGenMove(i)
	}
	hashIsGen := false
	for i := 0; i < 2*vpMaxGen; i++ {
		if i < g && gen[i] == hash {
			hashIsGen = true
		}
	}
	vp.Assert(n == g, "as-many-moves-yielded-as-generated")
	for i := 0; i < 2*vpMaxGen; i++ {
		if i < g {
			cnt := 0
			for k := 0; k < 2*vpMaxGen+2; k++ {
				if k < n && yielded[k] == gen[i] {
					cnt++
				}
			}
			vp.Assert(cnt == 1, "every-generated-move-yielded-exactly-once")
		}
	}
	if hashIsGen {
		vp.Assert(n > 0 && yielded[0] == hash, "pseudo-legal-hash-move-comes-first")
	}
	vp.Cover("end")
}

// vpGenCount / vpGenMove expose the lists the generator contracts produced (engine-side).
func vpGenCount() int         { return 0 }
func vpGenMove(i int) move.Move { return 0 }

// VpH_C16_select: one selection step from an ARBITRARY frame. In the yield stages Next() picks a maximum-weight
// entry among the unyielded ones above the stage's threshold, swaps it to the front of the unyielded part and leaves
// the multiset of the frame and the yielded prefix alone; if no entry is above the threshold nothing is yielded.
func VpH_C16_select() {
	n := vp.Param("n")
	ms := move.NewStore()
	ms.Push()
	var mv [8]move.Move
	var wt [8]Score
	for i := 0; i < n; i++ {
		mv[i] = move.Move(vp.BitsI("m", i, 15))
		wt[i] = Score(vp.BitsI("w", i, 16))
		ms.Alloc(mv[i]).Weight = wt[i]
	}
	ix := int(vp.Bits("ix", 4))
	vp.Assume(ix <= n)
	ranker := heur.NewMoveRanker()
	p := Picker{board: &board.Board{}, ms: ms, ranker: &ranker, hstack: stack.New[heur.StackMove](), ix: ix, state: yieldRest}
	thr := -heur.HashMove + 1
	best := thr
	any := false
	for i := 0; i < n; i++ {
		if i >= ix && wt[i] > best {
			best = wt[i]
			any = true
		}
	}
	ok := p.Next()
	fr := ms.Frame()
	vp.Assert(ok == any, "yields-iff-some-unyielded-entry-is-above-the-threshold")
	vp.Assert(len(fr) == n, "frame-length-unchanged")
	if ok {
		vp.Assert(p.ix == ix+1, "one-more-move-yielded")
		vp.Assert(fr[ix].Weight == best, "yielded-entry-has-maximum-weight")
	} else {
		vp.Assert(p.ix == ix, "nothing-yielded")
	}
	// multiset preserved (a swap at most) and the yielded prefix untouched
	for i := 0; i < n; i++ {
		if i < ix {
			vp.Assert(fr[i].Move == mv[i] && fr[i].Weight == wt[i], "yielded-prefix-untouched")
		}
		cntBefore, cntAfter := 0, 0
		for j := 0; j < n; j++ {
			if mv[j] == mv[i] && wt[j] == wt[i] {
				cntBefore++
			}
			if fr[j].Move == mv[i] && fr[j].Weight == wt[i] {
				cntAfter++
			}
		}
		vp.Assert(cntBefore == cntAfter, "frame-multiset-preserved")
	}
	vp.Cover("end")
}
