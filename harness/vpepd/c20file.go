package epd

import (
	"io"
	"os"

	"github.com/paulsonkoly/chess-3/vp"
)

const vpFileMax = 12

// vpFile holds the content of the data file of the file-backed harness.
var vpFile [vpFileMax]byte

// vpWriteFile materialises vpFile[:n] as a real temporary file (native replay); under the engine the file system
// calls (os.Open, bufio.Reader.ReadSlice, os.File.ReadAt/Close) are intercepted and served from vpFile directly.
func vpWriteFile(n int) string {
	f, err := os.CreateTemp("", "vpepd")
	if err != nil {
		panic(err)
	}
	f.Write(vpFile[:n])
	f.Close()
	return f.Name()
}

func vpOpen(fn string) *os.File {
	f, err := os.Open(fn)
	if err != nil {
		panic(err)
	}
	return f
}

// VpH_C20_file: for EVERY file of the driver's size (all bytes symbolic, newline-terminated), the manifest built by
// NewChunker addresses exactly the non-blank lines, and reading them back through a Chunk (in file order, through the
// refillable window) delivers each of them byte for byte, then io.EOF.
func VpH_C20_file() {
	n := vp.Param("size")
	for i := 0; i < n; i++ {
		vpFile[i] = byte(vp.BitsI("byte", i, 8))
	}
	vp.Assume(vpFile[n-1] == '\n')
	// specification: the non-blank lines [start, end) (end excludes the newline)
	var starts, ends [vpFileMax]int
	k := 0
	ls := 0
	for i := 0; i < n; i++ {
		if vpFile[i] == '\n' {
			// documented format: a line (with its newline) is far shorter than the read window
			vp.Assume(i-ls+1 <= vp.Param("window"))
			if i > ls {
				for j := 0; j < vpFileMax; j++ {
					if j == k {
						starts[j], ends[j] = ls, i
					}
				}
				k++
			}
			ls = i + 1
		}
	}
	fn := vpWriteFile(n)
	c, err := NewChunker(fn)
	vp.Assert(err == nil, "manifest-builds-without-error")
	vp.Assume(err == nil)
	vp.Assert(c.LineCount() == k, "manifest-has-one-entry-per-non-blank-line")
	ch := &Chunk{f: vpOpen(fn), chunkLines: c.lineManifest, mapBytes: make([]byte, vp.Param("window"))}
	for i := 0; i < vpFileMax/2; i++ {
		if i < k && i < c.LineCount() {
			line, rerr := ch.Read()
			vp.Assert(rerr == nil, "line-read-without-error")
			vp.Assume(rerr == nil)
			{
				same := len(line) == ends[i]-starts[i]
				for j := 0; j < vpFileMax; j++ {
					if j < len(line) && j < ends[i]-starts[i] && line[j] != vpFile[starts[i]+j] {
						same = false
					}
				}
				vp.Assert(same, "line-delivered-byte-for-byte")
			}
		}
	}
	_, eerr := ch.Read()
	vp.Assert(eerr == io.EOF, "end-of-chunk-after-the-last-line")
	ch.Close()
	vp.Cover("end")
}
