package epd

// Harness for tools/tuner/epd (presented as an overlay-only package of the main module by the driver).

import (
	"github.com/paulsonkoly/chess-3/vp"
)

// VpH_C20_feistel: for the driver's bit width and EVERY seed and EVERY round function (uninterpreted), the Feistel
// network maps [0, 2^bits) injectively into itself.
func VpH_C20_feistel() {
	bits := vp.Param("bits")
	seed := vp.U64("seed")
	x1 := vp.U64("x1")
	x2 := vp.U64("x2")
	if bits < 64 {
		size := uint64(1) << uint(bits)
		vp.Assume(x1 < size)
		vp.Assume(x2 < size)
	}
	vp.Assume(x1 != x2)
	y1 := feistel(x1, seed, bits)
	y2 := feistel(x2, seed, bits)
	if bits < 64 {
		vp.Assert(y1 < uint64(1)<<uint(bits), "feistel-stays-in-range")
	}
	vp.Assert(y1 != y2, "feistel-is-injective")
	vp.Cover("end")
}

// VpH_C20_shuffle: for the driver's n (small) and EVERY seed and round function, shuffleIndex maps [0,n) injectively
// into [0,n), i.e. is a permutation of the line indices. The rejection loop is unrolled size-n+1 times with an
// unwinding assertion.
func VpH_C20_shuffle() {
	n := uint64(vp.Param("n"))
	seed := vp.U64("seed")
	x1 := vp.U64("x1")
	x2 := vp.U64("x2")
	vp.Assume(x1 < n)
	vp.Assume(x2 < n)
	vp.Assume(x1 != x2)
	y1 := shuffleIndex(x1, n, seed)
	y2 := shuffleIndex(x2, n, seed)
	vp.Assert(y1 < n, "shuffle-stays-in-range")
	vp.Assert(y1 != y2, "shuffle-is-injective")
	vp.Cover("end")
}
