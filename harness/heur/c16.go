package heur

import (
	"github.com/paulsonkoly/chess-3/board"
	. "github.com/paulsonkoly/chess-3/chess"
	"github.com/paulsonkoly/chess-3/move"
	"github.com/paulsonkoly/chess-3/stack"
	"github.com/paulsonkoly/chess-3/vp"
)

func vpInBand(s Score) bool { return s >= -MaxHistory && s <= MaxHistory }

// VpH_C16_gravity: one update of each history table from ANY stored value in the band with ANY 16-bit bonus
// stays in the band (inductive step; the tables start at zero).
func VpH_C16_gravity() {
	old := Score(vp.I16("old"))
	bonus := Score(vp.I16("bonus"))
	vp.Assume(vpInBand(old))

	h := NewHistory()
	h.data[Black][E2][E4] = old
	h.Add(Black, E2, E4, bonus)
	vp.Assert(vpInBand(h.LookUp(Black, E2, E4)), "history-update-stays-in-band")

	c := NewContinuation()
	c.data[White][Knight-1][F3][Pawn-1][E5] = old
	c.Add(White, Knight, F3, Pawn, E5, bonus)
	vp.Assert(vpInBand(c.LookUp(White, Knight, F3, Pawn, E5)), "continuation-update-stays-in-band")

	ch := NewCaptHist()
	ch.data[Queen-Pawn][Rook-Pawn][D5] = old
	ch.Add(Queen, Rook, D5, bonus)
	vp.Assert(vpInBand(ch.LookUp(Queen, Rook, D5)), "capture-history-update-stays-in-band")

	// an update pulls towards the bonus: a maximal bonus never decreases, a minimal one never increases
	h2 := NewHistory()
	h2.data[White][A1][A2] = old
	h2.Add(White, A1, A2, bonus)
	n := h2.LookUp(White, A1, A2)
	if bonus >= 0 {
		vp.Assert(n >= old, "non-negative-bonus-does-not-lower")
	} else {
		vp.Assert(n <= old, "negative-bonus-does-not-raise")
	}
	vp.Cover("end")
}

// VpH_C16_quietband: with every table entry in the band, a quiet rank lies in [-3*MaxHistory, 3*MaxHistory],
// hence is never the duplicate sentinel -HashMove and never reaches a capture band.
func VpH_C16_quietband() {
	mr := NewMoveRanker()
	b := &board.Board{}
	b.STM = Color(vp.Param("stm"))
	from, to := G1, F3
	moved := Piece(vp.Bits("moved", 3))
	vp.Assume(moved >= Pawn && moved <= King)
	b.SquaresToPiece[from] = moved

	hs := stack.New[StackMove]()
	depth := int(vp.Bits("stackdepth", 2)) // 0, 1 or 2+ entries on the history stack
	p0 := Piece(vp.Bits("p0", 3))
	p1 := Piece(vp.Bits("p1", 3))
	vp.Assume(p0 >= Pawn && p0 <= King && p1 >= Pawn && p1 <= King)
	if depth >= 2 {
		hs.Push(StackMove{Piece: p1, To: C6})
	}
	if depth >= 1 {
		hs.Push(StackMove{Piece: p0, To: E5})
	}
	hv := Score(vp.I16("hist"))
	c0 := Score(vp.I16("cont0"))
	c1 := Score(vp.I16("cont1"))
	vp.Assume(vpInBand(hv) && vpInBand(c0) && vpInBand(c1))
	mr.history.data[b.STM][from][to] = hv
	mr.continuations[0].data[b.STM][p0-1][E5][moved-1][to] = c0
	mr.continuations[1].data[b.STM][p1-1][C6][moved-1][to] = c1

	r := mr.RankQuiet(move.From(from)|move.To(to), b, hs)
	vp.Assert(r >= -3*MaxHistory && r <= 3*MaxHistory, "quiet-rank-in-band")
	vp.Assert(r != -HashMove, "quiet-rank-never-duplicate-sentinel")
	vp.Assert(r < Captures && r > -Captures, "quiet-rank-never-in-capture-band")
	vp.Assert(r > -HashMove+1-1, "quiet-rank-above-yield-threshold")
	vp.Cover("end")
}

// VpH_C16_noisyband: a noisy rank is in the good-capture band when SEE says so and in the bad-capture band
// otherwise; never the sentinel, never zero, never in the quiet band. SEE is an arbitrary boolean here.
func VpH_C16_noisyband() {
	mr := NewMoveRanker()
	b := &board.Board{}
	b.STM = Color(vp.Bits("stm", 1))
	from, to := D4, E5
	attacker := Piece(vp.Bits("attacker", 3))
	victim := Piece(vp.Bits("victim", 3))
	promo := Piece(vp.Bits("promo", 3))
	vp.Assume(attacker >= Pawn && attacker <= King)
	vp.Assume(victim <= Queen)
	vp.Assume(promo == NoPiece || (promo >= Knight && promo <= Queen))
	b.SquaresToPiece[from] = attacker
	b.SquaresToPiece[to] = victim
	ch := Score(vp.I16("capthist"))
	vp.Assume(vpInBand(ch))
	if victim != NoPiece {
		mr.captHist.data[attacker-Pawn][victim-Pawn][to] = ch
	}
	r := mr.RankNoisy(move.From(from)|move.To(to)|move.Promo(promo), b, nil)
	good := r >= Captures && r < HashMove
	bad := r <= -Captures && r > -HashMove+1 // strictly above the last stage's yield threshold
	vp.Assert(good || bad, "noisy-rank-in-a-capture-band")
	vp.Assert(r != -HashMove, "noisy-rank-never-duplicate-sentinel")
	vp.Cover("end")
}
