package heur

// Specification of the static exchange evaluation as the capture-sequence minimax the property describes, on the
// mailbox position: each side captures on the destination square with its least valuable attacker (knight before
// bishop, lowest square first among equals - the implementation's choice among equally valued attackers), may stop
// at any point, x-ray attackers join as lines open, the king captures only when no enemy attacker remains, pins and
// promotions by recapturing pawns are ignored.

import (
	"github.com/paulsonkoly/chess-3/board"
	. "github.com/paulsonkoly/chess-3/chess"
	"github.com/paulsonkoly/chess-3/vp"
)

const vpSeeMax = 8 // captures after the initial move considered by the specification

var vpSeeDirs = [8][2]int{{1, 0}, {-1, 0}, {0, 1}, {0, -1}, {1, 1}, {-1, 1}, {1, -1}, {-1, -1}}
var vpSeeKnight = [8][2]int{{1, 2}, {2, 1}, {2, -1}, {1, -2}, {-1, -2}, {-2, -1}, {-2, 1}, {-1, 2}}
var vpSeeVal = [7]int{0, 100, 300, 300, 500, 900, 10000}

func vpSeeOn(f, r int) bool { return f >= 0 && f <= 7 && r >= 0 && r <= 7 }

// vpSeeLVA finds the least valuable piece of the given colour that attacks `to` with the squares in gone vacated.
// Returns whether one exists, its square and type.
func vpSeeLVA(m *board.VpPos, gone *[64]bool, black bool, to int) (bool, int, Piece) {
	f0, r0 := to&7, to>>3
	found, fsq, fp := false, 0, NoPiece
	take := func(sq int, p Piece) {
		// candidates are offered in increasing value, and within a value in increasing square order
		if !found {
			found, fsq, fp = true, sq, p
		}
	}
	is := func(sq int, p Piece) bool { return !gone[sq] && m.P[sq] == p && m.Black[sq] == black }
	// pawns stand one rank "behind" the target from their own point of view
	pr := r0 - 1
	if black {
		pr = r0 + 1
	}
	if pr >= 0 && pr <= 7 {
		for _, df := range [2]int{-1, 1} {
			if f := f0 + df; f >= 0 && f <= 7 && is(pr*8+f, Pawn) {
				take(pr*8+f, Pawn)
			}
		}
	}
	// leapers and first pieces along the rays, scanned in square order
	var first [8]int
	var firstOK [8]bool
	for d := 0; d < 8; d++ {
		seen := false
		for k := 1; k <= 7; k++ {
			f, r := f0+k*vpSeeDirs[d][0], r0+k*vpSeeDirs[d][1]
			if !vpSeeOn(f, r) {
				break
			}
			s := r*8 + f
			if !seen && !gone[s] && m.P[s] != NoPiece {
				seen = true
				first[d], firstOK[d] = s, true
			}
		}
	}
	for sq := 0; sq < 64; sq++ {
		df, dr := sq&7-f0, sq>>3-r0
		if df < 0 {
			df = -df
		}
		if dr < 0 {
			dr = -dr
		}
		if (df == 1 && dr == 2) || (df == 2 && dr == 1) {
			if is(sq, Knight) {
				take(sq, Knight)
			}
		}
	}
	slider := func(p Piece, lo, hi int) {
		for sq := 0; sq < 64; sq++ {
			for d := lo; d < hi; d++ {
				if firstOK[d] && first[d] == sq && m.P[sq] == p && m.Black[sq] == black {
					take(sq, p)
				}
			}
		}
	}
	slider(Bishop, 4, 8)
	slider(Rook, 0, 4)
	slider(Queen, 0, 8)
	for sq := 0; sq < 64; sq++ {
		df, dr := sq&7-f0, sq>>3-r0
		if df >= -1 && df <= 1 && dr >= -1 && dr <= 1 && sq != to && is(sq, King) {
			take(sq, King)
		}
	}
	return found, fsq, fp
}

// VpSeeSpec returns the exchange value of the move and whether the exchange ended within vpSeeMax captures.
func VpSeeSpec(b *board.Board, from, to int, promo Piece, maxCap int) (int, bool) {
	m := board.VpMailbox(b)
	var gone [64]bool
	gone[from] = true
	mover := m.P[from]
	victim := m.P[to]
	if mover == Pawn && b.EnPassant != 0 && int(b.EnPassant) == to && from&7 != to&7 {
		v := to - 8
		if b.STM == Black {
			v = to + 8
		}
		gone[v] = true
		victim = Pawn
	}
	promoGain := 0
	if promo != NoPiece {
		promoGain = vpSeeVal[promo] - vpSeeVal[Pawn]
	}
	var gain [vpSeeMax + 1]int
	var used [vpSeeMax + 1]bool
	gain[0] = vpSeeVal[victim] + promoGain
	onSq := vpSeeVal[mover] + promoGain
	black := b.STM == White // the side to recapture
	alive := true
	for d := 1; d <= maxCap; d++ {
		ok, sq, p := vpSeeLVA(&m, &gone, black, to)
		if alive && ok && p == King {
			// the king may capture only if the other side has no attacker left
			other, _, _ := vpSeeLVA(&m, &gone, !black, to)
			if other {
				ok = false
			}
		}
		if alive && ok {
			gain[d] = onSq - gain[d-1]
			used[d] = true
			onSq = vpSeeVal[p]
			for s := 0; s < 64; s++ {
				if s == sq {
					gone[s] = true
				}
			}
		} else {
			alive = false
		}
		black = !black
	}
	bounded := !alive
	if alive {
		more, _, _ := vpSeeLVA(&m, &gone, black, to)
		bounded = !more
	}
	for d := maxCap; d >= 1; d-- {
		if used[d] {
			// the side to move at depth d-1 may stop instead of allowing the recapture
			if -gain[d] < gain[d-1] {
				gain[d-1] = -gain[d]
			}
		}
	}
	return gain[0], bounded
}

// VpH_C18: for an arbitrary valid position, the driver's legal move and every threshold in the stated range, SEE answers
// true iff the specified exchange value reaches the threshold; and SEE is monotone in the threshold.
func VpH_C18() {
	stm := Color(vp.Param("stm"))
	from, to, promo := vp.Param("from"), vp.Param("to"), Piece(vp.Param("promo"))
	b := board.VpSymBoard(stm)
	vp.Assume(board.VpValid(b))
	vp.Assume(board.VpLegal(b, from, to, promo))
	th := Score(vp.I16("threshold"))
	vp.Assume(th >= -3000 && th <= 3000)
	want, bounded := VpSeeSpec(b, from, to, promo, vp.Param("maxcap"))
	vp.Assume(bounded)
	m := board.VpMove(from, to, promo)
	got := SEE(b, m, th)
	agrees := got == (want >= int(th))
	if !agrees && vp.Native() {
		// The property is existential over the choice among equally valued least attackers; the specification above
		// fixes the implementation's choice. A replayed counterexample counts only if NO choice explains SEE's answer.
		for _, v := range vpSeeAllValues(b, from, to, promo) {
			if got == (v >= int(th)) {
				agrees = true
			}
		}
	}
	vp.Assert(agrees, "see-answers-true-iff-exchange-value-reaches-threshold")
	th2 := Score(vp.I16("threshold2"))
	vp.Assume(th2 >= -3000 && th2 <= th)
	if got {
		vp.Assert(SEE(b, m, th2), "see-is-monotone-in-the-threshold")
	}
	vp.Cover("end")
}

// ---------------------------------------------------------------- native only: every choice among equal attackers

type vpSeeCand struct {
	sq int
	p  Piece
}

// vpSeeCandidates lists every piece of the colour attacking `to` (first piece seen along rays, leapers, pawns, king)
// with the squares in gone vacated.
func vpSeeCandidates(m *board.VpPos, gone *[64]bool, black bool, to int) []vpSeeCand {
	var out []vpSeeCand
	f0, r0 := to&7, to>>3
	is := func(sq int, p Piece) bool { return !gone[sq] && m.P[sq] == p && m.Black[sq] == black }
	pr := r0 - 1
	if black {
		pr = r0 + 1
	}
	if pr >= 0 && pr <= 7 {
		for _, df := range [2]int{-1, 1} {
			if f := f0 + df; f >= 0 && f <= 7 && is(pr*8+f, Pawn) {
				out = append(out, vpSeeCand{pr*8 + f, Pawn})
			}
		}
	}
	for _, k := range vpSeeKnight {
		f, r := f0+k[0], r0+k[1]
		if vpSeeOn(f, r) && is(r*8+f, Knight) {
			out = append(out, vpSeeCand{r*8 + f, Knight})
		}
	}
	for d := 0; d < 8; d++ {
		for k := 1; k <= 7; k++ {
			f, r := f0+k*vpSeeDirs[d][0], r0+k*vpSeeDirs[d][1]
			if !vpSeeOn(f, r) {
				break
			}
			s := r*8 + f
			if gone[s] || m.P[s] == NoPiece {
				continue
			}
			if m.Black[s] == black {
				p := m.P[s]
				diag := d >= 4
				if p == Queen || (p == Bishop && diag) || (p == Rook && !diag) {
					out = append(out, vpSeeCand{s, p})
				}
				if p == King && k == 1 {
					out = append(out, vpSeeCand{s, King})
				}
			}
			break
		}
	}
	return out
}

// vpSeeSide is the set of results the side to capture can be credited with (stand pat = 0), over every choice among
// equally valued least attackers.
func vpSeeSide(m *board.VpPos, gone *[64]bool, black bool, to int, onSq int, depth int) map[int]bool {
	res := map[int]bool{}
	cands := vpSeeCandidates(m, gone, black, to)
	if len(cands) == 0 || depth > 40 {
		res[0] = true
		return res
	}
	least := vpSeeVal[King] + 1
	for _, c := range cands {
		if vpSeeVal[c.p] < least {
			least = vpSeeVal[c.p]
		}
	}
	if least == vpSeeVal[King] && len(vpSeeCandidates(m, gone, !black, to)) > 0 {
		res[0] = true // the king may not capture into an attacked square
		return res
	}
	for _, c := range cands {
		if vpSeeVal[c.p] != least {
			continue
		}
		gone[c.sq] = true
		for v := range vpSeeSide(m, gone, !black, to, vpSeeVal[c.p], depth+1) {
			r := onSq - v
			if r < 0 {
				r = 0
			}
			res[r] = true
		}
		gone[c.sq] = false
	}
	return res
}

// vpSeeAllValues lists the exchange values of the move under every choice among equally valued least attackers.
func vpSeeAllValues(b *board.Board, from, to int, promo Piece) []int {
	m := board.VpMailbox(b)
	var gone [64]bool
	gone[from] = true
	mover := m.P[from]
	victim := m.P[to]
	if mover == Pawn && b.EnPassant != 0 && int(b.EnPassant) == to && from&7 != to&7 {
		v := to - 8
		if b.STM == Black {
			v = to + 8
		}
		gone[v] = true
		victim = Pawn
	}
	promoGain := 0
	if promo != NoPiece {
		promoGain = vpSeeVal[promo] - vpSeeVal[Pawn]
	}
	gain0 := vpSeeVal[victim] + promoGain
	var out []int
	for v := range vpSeeSide(&m, &gone, b.STM == White, to, vpSeeVal[mover]+promoGain, 0) {
		out = append(out, gain0-v)
	}
	return out
}

// VpH_C18_sparse: the same obligation on a sparse class of positions so that deep exchanges close: both kings on the
// driver's squares, only the squares of the driver's mask may hold other pieces (arbitrary piece and colour each),
// every other square empty. Exchanges of up to maxcap captures after the initial move.
func VpH_C18_sparse() {
	stm := Color(vp.Param("stm"))
	from, to, promo := vp.Param("from"), vp.Param("to"), Piece(vp.Param("promo"))
	b := board.VpSymBoardSparse(stm, vp.Param("wk"), vp.Param("bk"), vp.Param("mask"))
	vp.Assume(board.VpValid(b))
	vp.Assume(board.VpLegal(b, from, to, promo))
	th := Score(vp.I16("threshold"))
	vp.Assume(th >= -3000 && th <= 3000)
	want, bounded := VpSeeSpec(b, from, to, promo, vp.Param("maxcap"))
	vp.Assume(bounded)
	m := board.VpMove(from, to, promo)
	got := SEE(b, m, th)
	agrees := got == (want >= int(th))
	if !agrees && vp.Native() {
		for _, v := range vpSeeAllValues(b, from, to, promo) {
			if got == (v >= int(th)) {
				agrees = true
			}
		}
	}
	vp.Assert(agrees, "see-answers-true-iff-exchange-value-reaches-threshold")
	vp.Cover("end")
}
