package heur

import (
	"fmt"

	"github.com/paulsonkoly/chess-3/board"
	. "github.com/paulsonkoly/chess-3/chess"
	"github.com/paulsonkoly/chess-3/vp"
)

// VpV_SEE compares the exchange specification natively with SEE on every legal move of the corpus positions.
func VpV_SEE() {
	n := 0
	for _, fen := range vp.Corpus() {
		b, err := board.FromFEN(fen)
		if err != nil || b.InvalidPieceCount() || !board.VpValid(b) {
			continue
		}
		for from := 0; from < 64; from++ {
			for to := 0; to < 64; to++ {
				for _, promo := range []Piece{NoPiece, Queen, Knight} {
					if !board.VpLegal(b, from, to, promo) {
						continue
					}
					want, bounded := VpSeeSpec(b, from, to, promo, vpSeeMax)
					if !bounded {
						continue
					}
					n++
					// the any-choice enumeration (used to filter replays) must contain the fixed-choice value
					inAll := false
					for _, v := range vpSeeAllValues(b, from, to, promo) {
						if v == want {
							inAll = true
						}
					}
					if !inAll {
						vp.Disagree(fmt.Sprintf("see-any-choice %s %d->%d spec=%d not among %v", fen, from, to, want, vpSeeAllValues(b, from, to, promo)))
					}
					m := board.VpMove(from, to, promo)
					for th := -1300; th <= 1300; th += 50 {
						if SEE(b, m, Score(th)) != (want >= th) {
							vp.Disagree(fmt.Sprintf("see %s %v spec=%d threshold=%d", fen, m, want, th))
							break
						}
					}
				}
			}
		}
	}
	fmt.Println("VP-CORPUS-POSITIONS", n)
}
