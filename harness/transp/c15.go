package transp

import (
	"unsafe"

	"github.com/paulsonkoly/chess-3/board"
	. "github.com/paulsonkoly/chess-3/chess"
	"github.com/paulsonkoly/chess-3/move"
	"github.com/paulsonkoly/chess-3/vp"
)

func vpSymBucket(i int) bucket {
	var b bucket
	b.pKeys = vp.BitsI("pkeys", i, 64)
	for j := 0; j < bucketEntryCnt; j++ {
		k := i*bucketEntryCnt + j
		b.entries[j] = entry{
			Move:   move.Move(vp.BitsI("e_move", k, 16)),
			value:  Score(int16(vp.BitsI("e_value", k, 16))),
			packed: packed(vp.BitsI("e_packed", k, 8)),
			gen:    Gen(vp.BitsI("e_gen", k, 8)),
		}
	}
	return b
}

// vpSymTable is a table of n buckets with arbitrary content (the arbitrary reachable state).
func vpSymTable(n int) *Table {
	t := &Table{data: make([]bucket, n)}
	for i := 0; i < n; i++ {
		t.data[i] = vpSymBucket(i)
	}
	return t
}

func vpSig(w uint64, lane int) partialKey { return partialKey(w >> (uint(lane) * partialKeyBits)) }

// vpJ: no two lanes of the bucket hold the same non-zero signature.
func vpJ(b *bucket) bool {
	ok := true
	for i := 0; i < bucketEntryCnt; i++ {
		for j := i + 1; j < bucketEntryCnt; j++ {
			if vpSig(b.pKeys, i) != 0 && vpSig(b.pKeys, i) == vpSig(b.pKeys, j) {
				ok = false
			}
		}
	}
	return ok
}

// vpFirstLane is the specification of the lane matcher: lowest lane equal to key, or -1.
func vpFirstLane(w uint64, key partialKey) int {
	lane := -1
	for i := bucketEntryCnt - 1; i >= 0; i-- {
		if vpSig(w, i) == key {
			lane = i
		}
	}
	return lane
}

// VpH_C15_match: match64 returns the first lane equal to the key, for every word and key.
func VpH_C15_match() {
	w := vp.U64("w")
	key := partialKey(vp.U16("key"))
	ix, ok := match64(w, key)
	want := vpFirstLane(w, key)
	vp.Assert(ok == (want >= 0), "match64-hit-iff-some-lane-equals-key")
	if ok {
		vp.Assert(ix == want, "match64-returns-first-matching-lane")
	}
	vp.Cover("end")
}

// VpH_C15_clear: Clear establishes the invariant and empties every lane.
func VpH_C15_clear() {
	n := vp.Param("n")
	t := vpSymTable(n)
	t.Clear()
	for i := 0; i < n; i++ {
		vp.Assert(t.data[i] == bucket{}, "clear-zeroes-bucket")
		vp.Assert(vpJ(&t.data[i]), "clear-establishes-invariant")
	}
	h := board.Hash(vp.U64("h"))
	if partialKey(h>>(64-partialKeyBits)) != 0 {
		_, ok := t.LookUp(h)
		vp.Assert(!ok, "no-hit-after-clear-for-nonzero-signature")
	}
	vp.Cover("end")
}

func vpExpectedValue(v Score, storePly, probePly Depth) Score {
	if v > Inf-MaxPlies {
		return v + Score(storePly) - Score(probePly)
	}
	if v < -Inf+MaxPlies {
		return v - Score(storePly) + Score(probePly)
	}
	return v
}

// VpH_C15_insert: one store from an arbitrary table state satisfying the invariant.
func VpH_C15_insert() {
	n := vp.Param("n")
	t := vpSymTable(n)
	for i := 0; i < n; i++ {
		vp.Assume(vpJ(&t.data[i]))
	}
	var pre [8]bucket
	for i := 0; i < n; i++ {
		pre[i] = t.data[i]
	}

	hash := board.Hash(vp.U64("hash"))
	gen := Gen(vp.U8("gen"))
	d := Depth(vp.Bits("d", 6))
	ply := Depth(vp.Bits("ply", 6))
	probePly := Depth(vp.Bits("probe_ply", 6))
	sm := move.Move(vp.Bits("sm", 16))
	value := Score(vp.I16("value"))
	vp.Assume(value >= -Inf-1)
	vp.Assume(value <= Inf+1)
	typ := Type(vp.Bits("typ", 2))
	vp.Assume(typ <= Exact)

	bi := t.bucketIx(hash)
	vp.Assert(bi >= 0 && bi < n, "bucket-index-in-range")
	key := partialKey(hash >> (64 - partialKeyBits))
	pb := pre[bi]
	lane := vpFirstLane(pb.pKeys, key)
	keep := false
	var old entry
	if lane >= 0 {
		old = pb.entries[lane]
		keep = typ != Exact && old.Depth() > d+2 && old.gen == gen
	}

	// another key, probed before and after
	h2 := board.Hash(vp.U64("h2"))
	k2 := partialKey(h2 >> (64 - partialKeyBits))
	b2 := t.bucketIx(h2)
	vp.Assume(k2 != 0)
	vp.Assume(!(b2 == bi && k2 == key))
	var c2 entry
	e2, ok2 := t.LookUp(h2)
	if ok2 {
		c2 = *e2
	}
	// and a third one, for the at-most-one-casualty clause
	h3 := board.Hash(vp.U64("h3"))
	k3 := partialKey(h3 >> (64 - partialKeyBits))
	b3 := t.bucketIx(h3)
	vp.Assume(k3 != 0)
	vp.Assume(!(b3 == bi && k3 == key))
	vp.Assume(!(b3 == b2 && k3 == k2))
	_, ok3 := t.LookUp(h3)

	t.Insert(hash, gen, d, ply, sm, value, typ)

	post := t.data[bi]
	if keep {
		vp.Assert(post == pb, "keep-deeper-rule-leaves-bucket-unchanged")
	} else {
		e, ok := t.LookUp(hash)
		vp.Assert(ok, "probe-after-store-hits")
		if ok {
			vp.Assert(e.Depth() == d, "probe-returns-stored-depth")
			vp.Assert(e.Type() == typ, "probe-returns-stored-bound-type")
			vp.Assert(e.Value(probePly) == vpExpectedValue(value, ply, probePly), "probe-returns-stored-score-rebased")
			want := sm
			if sm == 0 && lane >= 0 {
				want = old.Move
			}
			vp.Assert(e.Move == want, "probe-returns-latest-non-null-move")
		}
	}
	vp.Assert(vpJ(&post), "store-preserves-invariant")
	for i := 0; i < n; i++ {
		if i != bi {
			vp.Assert(t.data[i] == pre[i], "store-touches-only-its-bucket")
		}
	}
	e2b, ok2b := t.LookUp(h2)
	if ok2b {
		vp.Assert(ok2, "no-phantom-hit-for-other-key")
		vp.Assert(*e2b == c2, "other-key-content-unchanged")
	}
	_, ok3b := t.LookUp(h3)
	vp.Assert(!(ok2 && !ok2b && ok3 && !ok3b), "store-evicts-at-most-one-other-key")
	vp.Cover("end")
}

// VpH_C15_value: mate re-basing on read for an arbitrary stored entry value.
func VpH_C15_value() {
	e := entry{value: Score(vp.I16("v"))}
	ply := Depth(vp.Bits("ply", 6))
	v := e.value
	got := e.Value(ply)
	if v > Inf-MaxPlies {
		vp.Assert(got == v-Score(ply), "positive-mate-rebased")
	} else if v < -Inf+MaxPlies {
		vp.Assert(got == v+Score(ply), "negative-mate-rebased")
	} else {
		vp.Assert(got == v, "non-mate-unchanged")
	}
	vp.Cover("end")
}

// vpFakeTable is a table whose bucket slice has length n without backing storage (only len is read).
func vpFakeTable(n int) *Table {
	var b bucket
	return &Table{data: unsafe.Slice(&b, n)}
}

// VpH_C15_bucketix: the bucket index is in range for every supported table size (1..1024 MB) and every hash.
func VpH_C15_bucketix() {
	mb := int(vp.Bits("mb", 11))
	vp.Assume(mb >= 1)
	vp.Assume(mb <= 1024)
	n := mb * MegaBytes / bucketSize
	t := vpFakeTable(n)
	h := board.Hash(vp.U64("h"))
	ix := t.bucketIx(h)
	vp.Assert(ix >= 0, "bucket-index-non-negative")
	vp.Assert(ix < n, "bucket-index-below-bucket-count")
	vp.Cover("end")
}
