package search

import (
	. "github.com/paulsonkoly/chess-3/chess"
	"github.com/paulsonkoly/chess-3/heur"
	"github.com/paulsonkoly/chess-3/move"
	"github.com/paulsonkoly/chess-3/stack"
	"github.com/paulsonkoly/chess-3/vp"
)

// VpH_C07_pv: the triangular PV buffer. For the driver's ply and an ARBITRARY child line (length and moves) and
// ARBITRARY other content: rows do not overlap and lie inside the buffer; after insert(ply, m) the row of `ply` is m
// followed by the child's line, its length is one more, and the child's row and the parent's row are untouched.
func VpH_C07_pv() {
	ply := vp.Param("ply")
	p := newPV()
	l := int(vp.Bits("childlen", 6))
	vp.Assume(l <= MaxPlies-1-ply-1 || ply == MaxPlies-1)
	i, j := bufIx(Depth(ply)), bufIx(Depth(ply+1))
	vp.Assert(j-i == MaxPlies-ply, "row-stride-is-row-capacity")
	vp.Assert(i >= 0 && i+(MaxPlies-ply) <= len(p.moves), "row-inside-buffer")
	if ply == MaxPlies-1 {
		return
	}
	var child [MaxPlies]move.Move
	for k := 0; k < MaxPlies-ply-1; k++ {
		child[k] = move.Move(vp.BitsI("child", k, 16))
		p.moves[j+k] = child[k]
	}
	p.depth[ply+1] = Depth(l)
	// parent row (if any) and the cell just before this row
	var before move.Move
	if ply > 0 {
		before = move.Move(vp.Bits("before", 16))
		p.moves[i-1] = before
		p.depth[ply-1] = Depth(vp.Bits("parentlen", 6))
	}
	parentLen := p.depth[max(ply-1, 0)]
	m := move.Move(vp.Bits("m", 16))

	p.insert(Depth(ply), m)

	vp.Assert(int(p.depth[ply]) == l+1, "length-is-child-length-plus-one")
	vp.Assert(p.moves[i] == m, "first-move-is-the-inserted-move")
	for k := 0; k < MaxPlies-ply-1; k++ {
		if k < l {
			vp.Assert(p.moves[i+1+k] == child[k], "tail-is-the-child-line")
		}
		vp.Assert(p.moves[j+k] == child[k], "child-row-untouched")
	}
	vp.Assert(int(p.depth[ply+1]) == l, "child-length-untouched")
	if ply > 0 {
		vp.Assert(p.moves[i-1] == before && p.depth[ply-1] == parentLen, "parent-row-untouched")
	}
	if ply == 0 {
		a := p.active()
		vp.Assert(len(a) == l+1 && a[0] == m, "active-line-is-row-zero")
	}
	p.setNull(Depth(ply))
	vp.Assert(p.depth[ply] == 0, "setnull-empties-the-row")
	vp.Cover("end")
}

// VpH_C08_budget: node accounting. From ANY counter value within a non-negative budget (or with no budget), one
// incrementNodes keeps the counter within the budget, raises the abort flag exactly when the budget is exhausted,
// and the flag is sticky; abort() reports it.
func VpH_C08_budget() {
	s := &Search{aborted: vp.Bits("aborted", 1) == 1}
	cnt := &Counters{Nodes: int(vp.I64("nodes"))}
	opts := &Options{Nodes: int(vp.I64("budget")), Counters: cnt}
	vp.Assume(opts.Nodes >= -1)
	vp.Assume(cnt.Nodes >= 0)
	if opts.Nodes >= 0 {
		vp.Assume(cnt.Nodes <= opts.Nodes)
	} else {
		vp.Assume(cnt.Nodes < 1<<62)
	}
	was, n0 := s.aborted, cnt.Nodes
	s.incrementNodes(opts)
	if opts.Nodes >= 0 {
		vp.Assert(cnt.Nodes <= opts.Nodes, "counter-never-exceeds-the-hard-budget")
		vp.Assert((cnt.Nodes == n0) == (n0 == opts.Nodes), "counter-stalls-exactly-when-budget-exhausted")
		vp.Assert(s.aborted == (was || n0 == opts.Nodes), "abort-raised-exactly-when-budget-exhausted")
	} else {
		vp.Assert(cnt.Nodes == n0+1 && s.aborted == was, "no-budget-means-plain-counting")
	}
	vp.Assert(cnt.Nodes == n0 || cnt.Nodes == n0+1, "counter-moves-by-at-most-one")
	vp.Assert(!was || s.aborted, "abort-flag-is-sticky")
	vp.Assert(s.abort(opts) == s.aborted, "abort-reports-the-flag")
	vp.Cover("end")
}

// VpH_C06_refresh: whatever state the previous search left (abort flag, move-store frames, history stack), refresh
// - run at the start of every Go - clears it, so the same instance can be searched again.
func VpH_C06_refresh() {
	s := &Search{ms: move.NewStore(), hstack: stack.New[heur.StackMove](), aborted: vp.Bits("aborted", 1) == 1}
	nf := int(vp.Bits("frames", 2))
	for k := 0; k < 3; k++ {
		if k < nf {
			s.ms.Push()
			s.ms.Alloc(move.Move(vp.BitsI("m", k, 16)))
		}
	}
	nh := int(vp.Bits("hist", 2))
	for k := 0; k < 3; k++ {
		if k < nh {
			s.hstack.Push(heur.StackMove{Piece: Knight, To: E4})
		}
	}
	s.refresh()
	vp.Assert(!s.aborted, "refresh-clears-the-abort-flag")
	vp.Assert(len(s.ms.Frame()) == 0, "refresh-empties-the-move-store")
	_, ok := s.hstack.Top(0)
	vp.Assert(!ok, "refresh-empties-the-history-stack")
	vp.Cover("end")
}
