package search

// Native confirmation of abstract counterexamples: the per-activation harnesses run the real alphaBeta/quiescence
// against contracts, so a solver counterexample there is a path, not an input. Before anything is reported, these
// functions look for a concrete (position, node budget) on which the real search shows the failure.

import (
	"fmt"
	"reflect"
	"strings"

	"github.com/paulsonkoly/chess-3/board"
	. "github.com/paulsonkoly/chess-3/chess"
	"github.com/paulsonkoly/chess-3/move"
	"github.com/paulsonkoly/chess-3/movegen"
	"github.com/paulsonkoly/chess-3/transp"
	"github.com/paulsonkoly/chess-3/vp"
)

func vpLegalMoves(b *board.Board) []move.Move {
	ms := move.NewStore()
	ms.Push()
	movegen.GenNoisy(ms, b)
	movegen.GenNotNoisy(ms, b)
	var out []move.Move
	for _, w := range ms.Frame() {
		r := b.MakeMove(w.Move)
		if !b.InCheck(b.STM.Flip()) {
			out = append(out, w.Move)
		}
		b.UndoMove(w.Move, r)
	}
	return out
}

// vpC06Case runs one real search with a hard node budget and checks C06 on it. Returns "" if all is well.
func vpC06Case(fen string, k int) string {
	b, err := board.FromFEN(fen)
	if err != nil {
		return ""
	}
	before := *b
	beforeFEN := b.FEN()
	s := New(1 * transp.MegaBytes)
	_, m, _ := s.Go(b, WithNodes(k), WithOutput(nil))
	if b.FEN() != beforeFEN || !reflect.DeepEqual(before.SquaresToPiece, b.SquaresToPiece) || before.Pieces != b.Pieces ||
		before.Colors != b.Colors || before.STM != b.STM || before.Castles != b.Castles || before.EnPassant != b.EnPassant ||
		before.FiftyCnt != b.FiftyCnt || before.Hash() != b.Hash() {
		return "board-not-restored"
	}
	legal := vpLegalMoves(b)
	final := len(legal) == 0 || b.FiftyCnt >= 100 || b.Threefold() >= 3
	if m == 0 {
		if !final {
			return "null-move-on-non-final-root"
		}
	} else {
		ok := false
		for _, l := range legal {
			if l == m {
				ok = true
			}
		}
		if !ok {
			return "illegal-move-returned"
		}
	}
	// the same instance can be searched again
	_, m2, _ := s.Go(b, WithNodes(50), WithOutput(nil))
	if b.FEN() != beforeFEN {
		return "board-not-restored-on-reuse"
	}
	_ = m2
	return ""
}

var vpSweepFENs = []string{
	"rnbqkbnr/pppppppp/8/8/8/8/PPPPPPPP/RNBQKBNR w KQkq - 0 1",
	"r3k2r/p1ppqpb1/bn2pnp1/3PN3/1p2P3/2N2Q1p/PPPBBPPP/R3K2R w KQkq - 0 1",
	"8/2p5/3p4/KP5r/1R3p1k/8/4P1P1/8 w - - 0 1",
	"r4rk1/1pp1qppp/p1np1n2/2b1p1B1/2B1P1b1/P1NP1N2/1PP1QPPP/R4RK1 w - - 0 10",
	"4k3/8/8/8/8/8/8/4K2R w K - 96 80",
	"7k/5Q2/6K1/8/8/8/8/8 b - - 0 1",
	"8/8/8/3k4/8/3K4/3P4/8 w - - 0 1",
	"rnb1kbnr/pppp1ppp/8/4p3/5PPq/8/PPPPP2P/RNBQKBNR w KQkq - 1 3",
	"r1bqkb1r/pppp1ppp/2n2n2/4p2Q/2B1P3/8/PPPP1PPP/RNB1K1NR w KQkq - 4 4",
	"8/P7/8/8/8/8/7p/k1K5 w - - 0 1",
}

// VpV_C06_sweep looks for a concrete (position, node budget) violating C06 on the real search.
func VpV_C06_sweep() {
	n := 0
	for _, fen := range vpSweepFENs {
		for k := 0; k <= 1500; k++ {
			n++
			if what := vpC06Case(fen, k); what != "" {
				vp.Confirmed(what, fen, k)
				fmt.Println("VP-CORPUS-POSITIONS", n)
				return
			}
		}
	}
	fmt.Println("VP-CORPUS-POSITIONS", n)
}

// VpV_C06_case replays one confirmed case from a tape.
func VpV_C06_case() {
	what := vpC06Case(vp.Str("fen"), vp.Param("k"))
	vp.Assert(what == "", "real-search-case "+what)
}

// vpC08Case: a search that ended at a soft node limit is reproduced - result and the state left behind - by a fresh
// engine given the reached node count as hard budget. Returns "" if so.
func vpC08Case(fen string, soft int) string {
	ba, err := board.FromFEN(fen)
	if err != nil {
		return ""
	}
	bb, _ := board.FromFEN(fen)
	a, b := New(1*transp.MegaBytes), New(1*transp.MegaBytes)
	ca, cb := Counters{}, Counters{}
	sa, ma, pa := a.Go(ba, WithSoftNodes(soft), WithOutput(nil), WithCounters(&ca))
	sb, mb, pb := b.Go(bb, WithNodes(ca.Nodes), WithOutput(nil), WithCounters(&cb))
	if ca.Nodes != cb.Nodes {
		return "hard-budget-replay-node-count-differs"
	}
	if cb.Nodes > ca.Nodes {
		return "hard-budget-exceeded"
	}
	if ma != mb || (ma != 0 && (sa != sb || pa != pb)) {
		return "hard-budget-replay-result-differs"
	}
	// the state left behind: a follow-up search must agree too
	c1, c2 := Counters{}, Counters{}
	s1, m1, _ := a.Go(ba, WithDepth(4), WithOutput(nil), WithCounters(&c1))
	s2, m2, _ := b.Go(bb, WithDepth(4), WithOutput(nil), WithCounters(&c2))
	if s1 != s2 || m1 != m2 || c1.Nodes != c2.Nodes {
		return "state-left-behind-differs"
	}
	return ""
}

// VpV_C08_sweep looks for a concrete (position, soft limit) violating C08 on the real search.
func VpV_C08_sweep() {
	n := 0
	for _, fen := range vpSweepFENs {
		for _, soft := range []int{1, 2, 3, 5, 8, 13, 21, 34, 55, 89, 144, 233, 377, 610, 987, 1597, 2584, 4181} {
			n++
			if what := vpC08Case(fen, soft); what != "" {
				vp.Confirmed(what, fen, soft)
				fmt.Println("VP-CORPUS-POSITIONS", n)
				return
			}
		}
	}
	fmt.Println("VP-CORPUS-POSITIONS", n)
}

func VpV_C08_case() {
	what := vpC08Case(vp.Str("fen"), vp.Param("k"))
	vp.Assert(what == "", "real-search-case "+what)
}

// vpC07Case checks C07's statement on everything a sequence of real searches of one root on one engine reports.
// k = table*10000 + pattern*100 + depth: table 0 = 1 MB, 1 = 64 KB (collision-heavy); pattern 0 = depth limits
// 1..depth in turn (fresh table first, warmed afterwards), pattern 1 = the same depth limit twice.
// Returns "" if all is well.
func vpC07Case(fen string, k int) string {
	b, err := board.FromFEN(fen)
	if err != nil {
		return ""
	}
	size := 1 * transp.MegaBytes
	if k/10000 == 1 {
		size = 64 * 1024
	}
	pattern, depth := k%10000/100, k%100
	if !board.VpValid(b) {
		return "" // the repository's test files also contain positions outside the property's domain
	}
	legalRoot := vpLegalMoves(b)
	if len(legalRoot) == 0 || b.FiftyCnt >= 100 || b.Threefold() >= 3 {
		return ""
	}
	var depths []int
	if pattern == 0 {
		for d := 1; d <= depth; d++ {
			depths = append(depths, d)
		}
	} else {
		depths = []int{depth, depth}
	}
	s := New(size)
	for _, d := range depths {
		var out strings.Builder
		_, m, ponder := s.Go(b, WithDepth(Depth(d)), WithOutput(&out))
		lastDepth, lastNodes := -1, -1
		var line []string
		for _, l := range strings.Split(out.String(), "\n") {
			f := strings.Fields(l)
			if len(f) < 4 || f[0] != "info" || f[1] != "depth" || f[3] != "score" {
				continue
			}
			var dep, nodes int
			fmt.Sscan(f[2], &dep)
			pv := []string(nil)
			for i := 4; i < len(f); i++ {
				if f[i] == "nodes" && i+1 < len(f) {
					fmt.Sscan(f[i+1], &nodes)
				}
				if f[i] == "pv" {
					pv = f[i+1:]
					break
				}
			}
			if dep <= lastDepth {
				return "reported-depth-not-increasing"
			}
			if nodes < lastNodes {
				return "reported-nodes-decreasing"
			}
			lastDepth, lastNodes = dep, nodes
			// the variation is a legal line from the root
			c, _ := board.FromFEN(fen)
			for _, ms := range pv {
				found := false
				for _, lm := range vpLegalMoves(c) {
					if lm.String() == ms {
						c.MakeMove(lm)
						found = true
						break
					}
				}
				if !found {
					return "reported-variation-not-a-legal-line"
				}
			}
			if len(pv) > 0 {
				line = pv
			}
		}
		if len(line) > 0 && m.String() != line[0] {
			return "returned-move-not-first-of-last-variation"
		}
		if m == 0 {
			return "null-move-on-non-final-root"
		}
		okm := false
		for _, lm := range legalRoot {
			if lm == m {
				okm = true
			}
		}
		if !okm {
			return "illegal-move-returned"
		}
		if ponder != 0 {
			c, _ := board.FromFEN(fen)
			c.MakeMove(m)
			okp := false
			for _, lm := range vpLegalMoves(c) {
				if lm == ponder {
					okp = true
				}
			}
			if !okp {
				return "ponder-move-not-legal-after-the-move"
			}
		}
	}
	return ""
}

// hand-written roots for the C07 sweep: bare and pawn endings, where repetitions, the 50-move rule and exact table
// hits cut lines short; the sweep adds every root with its halfmove clock moved close to 100 and a sample of the
// repository's own test positions.
var vpSweepFENsC07 = []string{
	"4k3/8/8/8/8/8/8/4K2R w K - 0 1",
	"8/8/8/3k4/8/3K4/3P4/8 w - - 0 1",
	"8/3k4/3p4/8/3P4/3K4/8/8 b - - 0 1",
	"8/8/7k/7p/7P/7K/8/8 w - - 0 1",
	"8/8/4k3/8/8/4K3/8/4R3 w - - 0 1",
	"8/6pk/8/8/8/8/1Q6/K7 w - - 0 1",
	"k7/8/1K6/8/8/8/8/6Q1 w - - 0 1",
	"6k1/5ppp/8/8/8/8/5PPP/3R2K1 w - - 0 1",
	"8/5k2/8/4p3/4P3/8/5K2/8 w - - 0 1",
	"8/1p4k1/8/8/8/8/1P4K1/8 b - - 0 1",
}

// vpWithClock rewrites the halfmove clock field of a FEN.
func vpWithClock(fen string, clock int) string {
	f := strings.Fields(fen)
	if len(f) < 6 {
		return fen
	}
	f[4] = fmt.Sprint(clock)
	return strings.Join(f, " ")
}

// VpV_C07_sweep looks for a concrete (root, table, search sequence) on which the real search violates C07's
// statement.
func VpV_C07_sweep() {
	n := 0
	roots := append(append([]string(nil), vpSweepFENsC07...), vpSweepFENs...)
	hand := len(roots)
	if corpus := vp.Corpus(); len(corpus) > 0 {
		step := len(corpus)/120 + 1
		for i := 0; i < len(corpus); i += step {
			roots = append(roots, corpus[i])
		}
	}
	for ri, root := range roots {
		maxd := 7
		if ri < hand {
			maxd = 10
		}
		for _, fen := range []string{root, vpWithClock(root, 96), vpWithClock(root, 99)} {
			for table := 0; table < 2; table++ {
				for _, k := range []int{maxd, 103, 105} {
					n++
					k += table * 10000
					if what := vpC07Case(fen, k); what != "" {
						vp.Confirmed(what, fen, k)
						fmt.Println("VP-CORPUS-POSITIONS", n)
						return
					}
				}
			}
		}
	}
	fmt.Println("VP-CORPUS-POSITIONS", n)
}

func VpV_C07_case() {
	what := vpC07Case(vp.Str("fen"), vp.Param("k"))
	vp.Assert(what == "", "real-search-case "+what)
}

var _ = Inf
