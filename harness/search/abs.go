package search

import (
	"github.com/paulsonkoly/chess-3/board"
	. "github.com/paulsonkoly/chess-3/chess"
	"github.com/paulsonkoly/chess-3/heur"
	"github.com/paulsonkoly/chess-3/move"
	"github.com/paulsonkoly/chess-3/stack"
	"github.com/paulsonkoly/chess-3/transp"
	"github.com/paulsonkoly/chess-3/vp"
)

// vpRegister tells the engine-side contracts which Search object is under test (no effect natively).
func vpRegister(s *Search) {}

// vpAbsSetup builds the state for one activation under the abstract-position contracts (see
// engine/checks/searchabs.go): an arbitrary opaque position, arbitrary directly read board fields, a search object
// with an arbitrary sticky abort flag, a few history-stack entries and one marked open move-store frame.
func vpAbsSetup() (*Search, *board.Board, *Options, uint64) {
	b := &board.Board{}
	b.STM = Color(vp.Bits("stm", 1))
	b.FiftyCnt = Depth(vp.Bits("fifty", 7))
	b.EnPassant = Square(vp.Bits("ep", 6))
	for i := range b.Pieces {
		b.Pieces[i] = BitBoard(vp.BitsI("pieces", i, 64))
	}
	b.Colors[White] = BitBoard(vp.Bits("white", 64))
	b.Colors[Black] = BitBoard(vp.Bits("black", 64))
	for sq := range b.SquaresToPiece {
		p := Piece(vp.BitsI("sqpiece", sq, 3))
		vp.Assume(p <= King)
		b.SquaresToPiece[sq] = p
	}
	pos0 := vp.U64("pos0")
	board.VpSetPos(b, pos0)

	s := &Search{tt: &transp.Table{}, ms: move.NewStore(), hstack: stack.New[heur.StackMove](), pv: newPV(), gen: transp.Gen(vp.U8("gen"))}
	s.aborted = vp.Bits("aborted0", 1) == 1
	vpRegister(s)
	for k := 0; k < 4; k++ {
		s.hstack.Push(heur.StackMove{Piece: Piece(1 + vp.BitsI("hpiece", k, 2)), To: Square(vp.BitsI("hto", k, 6)), Score: Score(vp.BitsI("hscore", k, 16))})
	}
	s.ms.Push()
	s.ms.Alloc(move.Move(0x7abc))

	cnt := &Counters{Nodes: int(vp.Bits("nodes", 40))}
	opts := &Options{Nodes: int(vp.I64("budget")), Counters: cnt, Depth: MaxPlies, SoftNodes: -1, Debug: vp.Bits("debug", 1) == 1}
	vp.Assume(opts.Nodes >= -1)
	vp.Assume(opts.Nodes == -1 || cnt.Nodes <= opts.Nodes)
	return s, b, opts, pos0
}

func vpAbsCheckRestored(s *Search, b *board.Board, pos0 uint64, what string) {
	vp.Assert(board.VpGetPos(b) == pos0, what+"-position-restored-on-return")
	_, ok3 := s.hstack.Top(3)
	_, ok4 := s.hstack.Top(4)
	vp.Assert(ok3 && !ok4, what+"-history-stack-balanced")
	fr := s.ms.Frame()
	vp.Assert(len(fr) == 1 && fr[0].Move == 0x7abc, what+"-move-store-frames-balanced")
}

// VpH_C06_alphabeta: one activation of the real alphaBeta.
func VpH_C06_alphabeta() {
	s, b, opts, pos0 := vpAbsSetup()
	alpha := Score(vp.I16("alpha"))
	beta := Score(vp.I16("beta"))
	vp.Assume(alpha >= -Inf-1 && beta <= Inf+1 && alpha < beta)
	d := Depth(vp.Bits("d", 6))
	ply := Depth(vp.Param("ply"))
	nType := Node(vp.Bits("ntype", 2))
	vp.Assume(nType <= AllNode)
	was := s.aborted
	threefold := b.Threefold()
	fifty := b.FiftyCnt

	ret := s.alphaBeta(b, alpha, beta, d, ply, nType, opts)

	vpAbsCheckRestored(s, b, pos0, "alphabeta")
	vp.Assert(!was || s.aborted, "alphabeta-abort-flag-sticky")
	if d > 0 && ply < MaxPlies-1 && !s.aborted && ply == 0 && (fifty >= 100 || threefold >= 3) {
		vp.Assert(ret == 0 && len(s.pv.active()) == 0, "final-root-by-draw-rule-scores-zero-with-empty-line")
	}
	vp.Cover("end")
}

// VpH_C06_quiescence: one activation of the real quiescence.
func VpH_C06_quiescence() {
	s, b, opts, pos0 := vpAbsSetup()
	alpha := Score(vp.I16("alpha"))
	beta := Score(vp.I16("beta"))
	vp.Assume(alpha >= -Inf-1 && beta <= Inf+1 && alpha < beta)
	ply := Depth(vp.Param("ply"))
	was := s.aborted
	s.quiescence(b, alpha, beta, ply, opts)
	vpAbsCheckRestored(s, b, pos0, "quiescence")
	vp.Assert(!was || s.aborted, "quiescence-abort-flag-sticky")
	vp.Cover("end")
}

// VpH_C06_deepen: the real iterativeDeepen with alphaBeta under contract (arbitrary score, may raise the abort flag,
// leaves the position alone, and - in this harness - never produces a principal variation, so that any move returned
// comes from the fall-back). Whatever happens, the position is restored, and a move returned by the fall-back is a
// generated move after which the mover is not in check.
func VpH_C06_deepen() {
	s, b, opts, pos0 := vpAbsSetup()
	opts.Depth = Depth(vp.Bits("depthlimit", 6))
	vp.Assume(opts.Depth >= 1)
	stm0 := b.STM
	_, m, ponder := s.iterativeDeepen(b, opts)
	vpAbsCheckRestored(s, b, pos0, "deepen")
	vp.Assert(b.STM == stm0, "deepen-side-to-move-restored")
	if m != 0 {
		r := b.MakeMove(m)
		chk := b.InCheck(stm0)
		b.UndoMove(m, r)
		vp.Assert(!chk, "fallback-move-does-not-leave-the-mover-in-check")
		vp.Assert(ponder == 0, "fallback-gives-no-ponder-move")
	}
	vp.Cover("end")
}

// Observations of the info lines iterativeDeepen printed (engine-side: recorded by the fmt.Fprintf contract).
// "Line" is the most recent NON-EMPTY variation printed.
func vpPrintedAny() bool         { return false }
func vpLastPrintedDepth() int    { return 0 }
func vpLineAny() bool            { return false }
func vpLineLen() int             { return 0 }
func vpLineFirst() move.Move     { return 0 }
func vpLineSecond() move.Move    { return 0 }
func vpPrintsMonotone() bool     { return true }

func vpDeepenSetup() (*Search, *board.Board, *Options) {
	s, b, opts, _ := vpAbsSetup()
	opts.Depth = Depth(vp.Bits("depthlimit", 6))
	vp.Assume(opts.Depth >= 1)
	opts.SoftNodes = int(vp.I64("softnodes"))
	opts.SoftTime = vp.I64("softtime")
	opts.Output = vpSink{}
	return s, b, opts
}

// VpH_C07_deepen: the real iterativeDeepen with alphaBeta under contract (arbitrary score, arbitrary principal
// variation in row 0, node counter never decreases, may raise the abort flag), arbitrary soft limits and clock, and
// the info lines observed: printed depths strictly increase and node counts never decrease; the move returned is
// the first move of the most recent non-empty printed variation; a ponder move, when given, is the second move of
// that same variation (the continuation of a reported legal line, hence legal after the move).
func VpH_C07_deepen() {
	s, b, opts := vpDeepenSetup()
	_, m, ponder := s.iterativeDeepen(b, opts)
	vp.Assert(vpPrintsMonotone(), "printed-depths-increase-and-node-counts-never-decrease")
	if vpLineAny() {
		vp.Assert(m == vpLineFirst(), "returned-move-is-first-move-of-last-nonempty-printed-variation")
		vp.Assert(ponder == 0 || (vpLineLen() >= 2 && ponder == vpLineSecond()), "ponder-move-continues-the-variation-the-returned-move-starts")
	} else {
		vp.Assert(ponder == 0, "no-ponder-move-without-a-variation")
	}
	vp.Cover("end")
}

// VpH_C08_deepen: same activation; a search that stops at a soft limit (returns without the abort flag and before
// the depth limit) has a best move, so that a hard budget of the reached node count - which aborts inside the next
// iteration and keeps the best move found - reproduces the result.
func VpH_C08_deepen() {
	s, b, opts := vpDeepenSetup()
	_, m, _ := s.iterativeDeepen(b, opts)
	if !s.aborted && vpPrintedAny() && vpLastPrintedDepth() < int(opts.Depth) && vpLastPrintedDepth() < MaxPlies-1 {
		vp.Assert(m != 0, "soft-limit-stop-only-with-a-best-move")
	}
	vp.Cover("end")
}

// Observations of one alphaBeta activation's writes to the PV buffer (engine-side).
func vpInsertedAny() bool            { return false }
func vpInsertsWellFormed(ply Depth) bool { return true }

// VpH_C07_alphabeta: one activation of the real alphaBeta from an ARBITRARY (possibly stale, non-empty) row of the PV
// buffer at its ply: on return the row is empty unless this activation inserted into it, and every insert of this
// activation goes to its own ply with the move it has just made and taken back (so that, by induction over plies,
// every row holds the moves actually played along one line).
func VpH_C07_alphabeta() {
	s, b, opts, _ := vpAbsSetup()
	alpha := Score(vp.I16("alpha"))
	beta := Score(vp.I16("beta"))
	vp.Assume(alpha >= -Inf-1 && beta <= Inf+1 && alpha < beta)
	d := Depth(vp.Bits("d", 6))
	ply := Depth(vp.Param("ply"))
	nType := Node(vp.Bits("ntype", 2))
	vp.Assume(nType <= AllNode)
	stale := Depth(vp.Bits("stale_len", 6))
	vp.Assume(int(stale) <= MaxPlies-int(ply))
	s.pv.depth[ply] = stale
	s.pv.moves[bufIx(ply)] = move.Move(vp.Bits("stale_first", 16))

	s.alphaBeta(b, alpha, beta, d, ply, nType, opts)

	vp.Assert(s.pv.depth[ply] == 0 || vpInsertedAny(), "row-empty-on-return-unless-this-activation-inserted")
	vp.Assert(vpInsertsWellFormed(ply), "inserts-go-to-own-ply-with-the-move-just-searched")
	vp.Cover("end")
}

type vpSink struct{}

func (vpSink) Write(p []byte) (int, error) { return len(p), nil }
