package attacks

import (
	. "github.com/paulsonkoly/chess-3/chess"
	"github.com/paulsonkoly/chess-3/vp"
)

// vpRay walks one ray from sq (exclusive) up to and including the first occupied square.
func vpRay(sq int, occ BitBoard, df, dr int) BitBoard {
	var res BitBoard
	f, r := sq&7+df, sq>>3+dr
	for f >= 0 && f <= 7 && r >= 0 && r <= 7 {
		bit := BitBoard(1) << uint(r*8+f)
		res |= bit
		if occ&bit != 0 {
			break
		}
		f += df
		r += dr
	}
	return res
}

func vpRookSpec(sq int, occ BitBoard) BitBoard {
	return vpRay(sq, occ, 1, 0) | vpRay(sq, occ, -1, 0) | vpRay(sq, occ, 0, 1) | vpRay(sq, occ, 0, -1)
}

func vpBishopSpec(sq int, occ BitBoard) BitBoard {
	return vpRay(sq, occ, 1, 1) | vpRay(sq, occ, -1, 1) | vpRay(sq, occ, 1, -1) | vpRay(sq, occ, -1, -1)
}

// VpH_C12_rook: for the square given by the driver and EVERY 64-bit occupancy, the magic lookup equals the ray walk.
func VpH_C12_rook() {
	sq := vp.Param("sq")
	occ := BitBoard(vp.U64("occ"))
	want := vpRookSpec(sq, occ)
	vp.Assert(RookMoves(Square(sq), occ) == want, "rook-lookup-equals-ray-walk")
	vp.Assert(vpRookSpec(sq, occ&rookMasks[sq]) == want, "rook-squares-outside-mask-do-not-matter")
	vp.Cover("end")
}

func VpH_C12_bishop() {
	sq := vp.Param("sq")
	occ := BitBoard(vp.U64("occ"))
	want := vpBishopSpec(sq, occ)
	vp.Assert(BishopMoves(Square(sq), occ) == want, "bishop-lookup-equals-ray-walk")
	vp.Assert(vpBishopSpec(sq, occ&bishopMasks[sq]) == want, "bishop-squares-outside-mask-do-not-matter")
	vp.Cover("end")
}

func vpLeaper(sq int, deltas [8][2]int) BitBoard {
	var res BitBoard
	for _, d := range deltas {
		f, r := sq&7+d[0], sq>>3+d[1]
		if f >= 0 && f <= 7 && r >= 0 && r <= 7 {
			res |= BitBoard(1) << uint(r*8+f)
		}
	}
	return res
}

// VpH_C12_leapers: king and knight tables equal their delta definitions for a symbolic square.
func VpH_C12_leapers() {
	sq := int(vp.Bits("sq", 6))
	king := [8][2]int{{1, 0}, {1, 1}, {0, 1}, {-1, 1}, {-1, 0}, {-1, -1}, {0, -1}, {1, -1}}
	knight := [8][2]int{{1, 2}, {2, 1}, {2, -1}, {1, -2}, {-1, -2}, {-2, -1}, {-2, 1}, {-1, 2}}
	vp.Assert(KingMoves(Square(sq)) == vpLeaper(sq, king), "king-table-equals-geometry")
	vp.Assert(KnightMoves(Square(sq)) == vpLeaper(sq, knight), "knight-table-equals-geometry")
	vp.Cover("end")
}

// VpH_C12_pawns: pawn capture and single-push sets equal their per-square definitions for any set and colour.
func VpH_C12_pawns() {
	b := BitBoard(vp.U64("b"))
	color := Color(vp.Param("color"))
	var caps, push BitBoard
	dir := 1
	if color == Black {
		dir = -1
	}
	for sq := 0; sq < 64; sq++ {
		if b&(BitBoard(1)<<uint(sq)) == 0 {
			continue
		}
		f, r := sq&7, sq>>3
		nr := r + dir
		if nr < 0 || nr > 7 {
			continue
		}
		push |= BitBoard(1) << uint(nr*8+f)
		if f > 0 {
			caps |= BitBoard(1) << uint(nr*8+f-1)
		}
		if f < 7 {
			caps |= BitBoard(1) << uint(nr*8+f+1)
		}
	}
	vp.Assert(PawnCaptureMoves(b, color) == caps, "pawn-captures-equal-geometry")
	vp.Assert(PawnSinglePushMoves(b, color) == push, "pawn-pushes-equal-geometry")
	vp.Cover("end")
}

func vpAbs(x int) int {
	if x < 0 {
		return -x
	}
	return x
}

// VpH_C12_between: InBetween[a][b], ends disregarded, holds exactly the squares strictly between two aligned
// squares and nothing for unaligned ones. a is fixed by the driver, b is symbolic.
func VpH_C12_between() {
	a := vp.Param("a")
	b := int(vp.Bits("b", 6))
	fa, ra := a&7, a>>3
	fb, rb := b&7, b>>3
	aligned := fa == fb || ra == rb || vpAbs(fa-fb) == vpAbs(ra-rb)
	var want BitBoard
	for s := 0; s < 64; s++ {
		fs, rs := s&7, s>>3
		if !aligned || s == a || s == b {
			continue
		}
		// collinear with a-b and inside the bounding box
		if (fs-fa)*(rb-ra) != (rs-ra)*(fb-fa) {
			continue
		}
		if fs < min(fa, fb) || fs > max(fa, fb) || rs < min(ra, rb) || rs > max(ra, rb) {
			continue
		}
		want |= BitBoard(1) << uint(s)
	}
	ends := BitBoard(1)<<uint(a) | BitBoard(1)<<uint(b)
	vp.Assert(InBetween[a][b]&^ends == want, "inbetween-equals-strict-betweenness")
	vp.Cover("end")
}
