// Package vp is the harness support library. Natively it replays a tape written by the
// solver-based engine; under the engine every function here is intercepted and never executed.
package vp

import (
	"encoding/json"
	"fmt"
	"os"
	"reflect"
	"runtime"
	"sort"
	"strconv"
)

type tapeT struct {
	Vars   map[string]uint64 `json:"vars"`
	Params map[string]int64  `json:"params"`
	Strs   map[string]string `json:"strs"`
}

var tape tapeT
var loaded bool

func load() {
	if loaded {
		return
	}
	loaded = true
	tape.Vars = map[string]uint64{}
	tape.Params = map[string]int64{}
	if fn := os.Getenv("VP_TAPE"); fn != "" {
		data, err := os.ReadFile(fn)
		if err != nil {
			fmt.Println("VP-TAPE-ERROR", err)
			os.Exit(5)
		}
		if err := json.Unmarshal(data, &tape); err != nil {
			fmt.Println("VP-TAPE-ERROR", err)
			os.Exit(5)
		}
	}
}

func mask(n int) uint64 {
	if n >= 64 {
		return ^uint64(0)
	}
	return (uint64(1) << n) - 1
}

// Bits is an arbitrary n-bit value, zero-extended.
func Bits(name string, n int) uint64 { load(); return tape.Vars[name] & mask(n) }

// BitsI is an arbitrary n-bit value named name[i].
func BitsI(name string, i int, n int) uint64 {
	load()
	return tape.Vars[name+"["+strconv.Itoa(i)+"]"] & mask(n)
}

func U64(name string) uint64 { return Bits(name, 64) }
func U32(name string) uint32 { return uint32(Bits(name, 32)) }
func U16(name string) uint16 { return uint16(Bits(name, 16)) }
func U8(name string) uint8   { return uint8(Bits(name, 8)) }
func I64(name string) int64  { return int64(Bits(name, 64)) }
func I16(name string) int16  { return int16(Bits(name, 16)) }
func I8(name string) int8    { return int8(Bits(name, 8)) }
func Bool(name string) bool  { return Bits(name, 1) == 1 }
func Int(name string) int    { return int(Bits(name, 64)) }

// Str is a string recorded in a replay tape (native confirmation cases only).
func Str(name string) string { load(); return tape.Strs[name] }

// Confirmed reports a concrete failing case found by a native confirmation run.
func Confirmed(label, fen string, k int) {
	fmt.Printf("VP-CONFIRMED %s|%s|%d\n", label, fen, k)
}

// Param is a concrete case-split parameter chosen by the driver.
func Param(name string) int { load(); return int(tape.Params[name]) }

// Assume restricts the inputs considered from here on.
func Assume(c bool) {
	if !c {
		_, file, line, _ := runtime.Caller(1)
		fmt.Printf("VP-ASSUME-FAIL %s:%d\n", file, line)
		os.Exit(4)
	}
}

// Assert states the property.
func Assert(c bool, label string) {
	if !c {
		_, file, line, _ := runtime.Caller(1)
		fmt.Printf("VP-ASSERT-FAIL %s (%s:%d)\n", label, file, line)
		os.Exit(3)
	}
}

// Cover marks a point that must be reachable (vacuity witness).
func Cover(label string) {}

// Pack64 packs 64 booleans into a word, bit i = bits[i].
func Pack64(bits *[64]bool) uint64 {
	var r uint64
	for i, b := range bits {
		if b {
			r |= 1 << uint(i)
		}
	}
	return r
}

// Native reports whether the harness runs natively (replay, validation) rather than under the symbolic executor,
// which answers false. Used only to make a native replay MORE tolerant than the solver obligation where the property
// is existential (C18: "for some choice among equally valued least attackers"), never less.
func Native() bool { return true }

// Done is called at the end of a replayed harness.
func Done() { fmt.Println("VP-REPLAY-COMPLETED") }

// ---------------------------------------------------------------- globals dump (native only)

func dumpValue(v reflect.Value) any {
	switch v.Kind() {
	case reflect.Bool:
		return v.Bool()
	case reflect.Int, reflect.Int8, reflect.Int16, reflect.Int32, reflect.Int64:
		return strconv.FormatInt(v.Int(), 10)
	case reflect.Uint, reflect.Uint8, reflect.Uint16, reflect.Uint32, reflect.Uint64, reflect.Uintptr:
		return strconv.FormatUint(v.Uint(), 10)
	case reflect.String:
		return map[string]any{"s": v.String()}
	case reflect.Array, reflect.Slice:
		n := v.Len()
		// compact form for integer element arrays
		if n > 0 {
			switch v.Index(0).Kind() {
			case reflect.Int, reflect.Int8, reflect.Int16, reflect.Int32, reflect.Int64:
				out := make([]int64, n)
				for i := 0; i < n; i++ {
					out[i] = v.Index(i).Int()
				}
				return map[string]any{"i": out}
			case reflect.Uint, reflect.Uint8, reflect.Uint16, reflect.Uint32, reflect.Uint64, reflect.Uintptr:
				out := make([]string, n)
				for i := 0; i < n; i++ {
					out[i] = strconv.FormatUint(v.Index(i).Uint(), 10)
				}
				return map[string]any{"u": out}
			}
		}
		out := make([]any, n)
		for i := 0; i < n; i++ {
			out[i] = dumpValue(v.Index(i))
		}
		return out
	case reflect.Struct:
		out := make([]any, v.NumField())
		for i := range out {
			out[i] = dumpValue(v.Field(i))
		}
		return map[string]any{"f": out}
	case reflect.Map:
		type kv struct{ k, v any }
		var pairs [][2]any
		it := v.MapRange()
		for it.Next() {
			pairs = append(pairs, [2]any{dumpValue(it.Key()), dumpValue(it.Value())})
		}
		sort.Slice(pairs, func(i, j int) bool { return fmt.Sprint(pairs[i][0]) < fmt.Sprint(pairs[j][0]) })
		return map[string]any{"m": pairs}
	}
	return nil
}

// DumpGlobals writes the post-init values of the given package-level variables (pointers) as JSON.
func DumpGlobals(pkg string, vars map[string]any) {
	dir := os.Getenv("VP_DUMP_DIR")
	if dir == "" {
		return
	}
	out := map[string]any{}
	for name, p := range vars {
		out[name] = dumpValue(reflect.ValueOf(p).Elem())
	}
	data, err := json.Marshal(out)
	if err != nil {
		panic(err)
	}
	if err := os.WriteFile(dir+"/"+pkg+".json", data, 0o644); err != nil {
		panic(err)
	}
}

// Corpus returns the FEN strings collected by the driver from the repository's own tests (native validation only).
func Corpus() []string {
	fn := os.Getenv("VP_CORPUS")
	if fn == "" {
		return nil
	}
	data, err := os.ReadFile(fn)
	if err != nil {
		return nil
	}
	var out []string
	start := 0
	for i := 0; i <= len(data); i++ {
		if i == len(data) || data[i] == '\n' {
			if i > start {
				out = append(out, string(data[start:i]))
			}
			start = i + 1
		}
	}
	return out
}

// Disagree reports a specification/implementation disagreement found by a native validation run.
func Disagree(what string) { fmt.Println("VP-CORPUS-DISAGREE", what) }
