package eval

import (
	"github.com/paulsonkoly/chess-3/attacks"
	"github.com/paulsonkoly/chess-3/board"
	. "github.com/paulsonkoly/chess-3/chess"
	"github.com/paulsonkoly/chess-3/vp"
)

// vpTerms groups the evaluation terms the way Eval accumulates them, built only from the repository's own term
// functions. which selects the king-attack contributions (0 all, 1 attacking pieces, 2 queen/rook safe checks,
// 3 bishop/knight safe checks, 4 shelter).
func vpTerms(b *board.Board, c *CoeffSet[Score], which int) (scorePair[Score], kingAttacks[Score]) {
	sp := scorePair[Score]{}
	sp.addPieceValues(b, c)
	sp.addTempo(b, c)
	sp.addBishopPair(b, c)
	pw := pieceWise{}
	pw.calcOccupancy(b)
	pw.calcKingSquares(b)
	pw.calcPawnStructure(b)
	sp.addPassers(b, pw, c)
	sp.addDoubledPawns(pw, c)
	sp.addIsolatedPawns(pw, c)
	ka := kingAttacks[Score]{}
	ap := which == 0 || which == 1
	for color := White; color <= Black; color++ {
		eKNb := pw.kingNb[color.Flip()]
		for pieces := b.Pieces[Queen] & b.Colors[color]; pieces != 0; pieces &= pieces - 1 {
			sq := pieces.LowestSet()
			attacks := pw.calcQueenAttacks(color, sq)
			if ap {
				ka.addAttackPieces(color, Queen, attacks, eKNb, c)
			}
			sp.addPSqT(color, Queen, sq, c)
		}
		for pieces := b.Pieces[Rook] & b.Colors[color]; pieces != 0; pieces &= pieces - 1 {
			sq := pieces.LowestSet()
			attacks := pw.calcRookAttacks(color, sq)
			if ap {
				ka.addAttackPieces(color, Rook, attacks, eKNb, c)
			}
			sp.addRookMobility(b, color, sq, attacks, c)
			sp.addPSqT(color, Rook, sq, c)
		}
		for pieces := b.Pieces[Bishop] & b.Colors[color]; pieces != 0; pieces &= pieces - 1 {
			sq := pieces.LowestSet()
			attacks := pw.calcBishopAttacks(color, sq)
			if ap {
				ka.addAttackPieces(color, Bishop, attacks, eKNb, c)
			}
			sp.addBishopMobility(b, color, attacks, c)
			sp.addPSqT(color, Bishop, sq, c)
		}
		for pieces := b.Pieces[Knight] & b.Colors[color]; pieces != 0; pieces &= pieces - 1 {
			sq := pieces.LowestSet()
			attacks := pw.calcKnightAttacks(color, sq)
			if ap {
				ka.addAttackPieces(color, Knight, attacks, eKNb, c)
			}
			sp.addKnightMobility(b, color, attacks, pw.attacks[color.Flip()][0], c)
			sp.addKnightOutposts(color, sq, pw.holes[color.Flip()]&pw.attacks[color][0], c)
			sp.addPSqT(color, Knight, sq, c)
		}
		for pieces := b.Pieces[Pawn] & b.Colors[color]; pieces != 0; pieces &= pieces - 1 {
			sq := pieces.LowestSet()
			sp.addPSqT(color, Pawn, sq, c)
		}
		piece := b.Pieces[King] & b.Colors[color]
		sq := piece.LowestSet()
		sp.addPSqT(color, King, sq, c)
	}
	pw.calcCover()
	for color := White; color <= Black; color++ {
		eCover := pw.cover[color.Flip()]
		var safeChecks BitBoard
		if which == 0 || which == 2 {
			eKAttack := pw.kingRays[color.Flip()][0] | pw.kingRays[color.Flip()][Rook-Bishop]
			safeChecks = pw.attacks[color][Queen-Pawn] & eKAttack & ^eCover & ^b.Colors[color]
			ka.addSafeChecks(color, Queen, safeChecks, c)
			eKAttack = pw.kingRays[color.Flip()][Rook-Bishop]
			safeChecks = pw.attacks[color][Rook-Pawn] & eKAttack & ^eCover & ^b.Colors[color]
			ka.addSafeChecks(color, Rook, safeChecks, c)
		}
		if which == 0 || which == 3 {
			eKAttack := pw.kingRays[color.Flip()][0]
			safeChecks = pw.attacks[color][Bishop-Pawn] & eKAttack & ^eCover & ^b.Colors[color]
			ka.addSafeChecks(color, Bishop, safeChecks, c)
			eKAttack = attacks.KnightMoves(pw.kingSq[color.Flip()])
			safeChecks = pw.attacks[color][Knight-Pawn] & eKAttack & ^eCover & ^b.Colors[color]
			ka.addSafeChecks(color, Knight, safeChecks, c)
		}
		if which == 0 || which == 4 {
			pCnt := (pw.kingNb[color] & b.Colors[color] & b.Pieces[Pawn]).Count()
			penalty := Score(max(3-pCnt, 0))
			ka.addShelter(color, penalty, c)
		}
	}
	return sp, ka
}

func vpSetup() (*board.Board, *board.Board) {
	stm := Color(vp.Param("stm"))
	b := board.VpSymBoardKings(stm, vp.Param("wk"), vp.Param("bk"))
	vp.Assume(board.VpValid(b))
	return b, board.VpMirror(b)
}

// VpH_C17_indep: the real Eval ignores everything but placement, side to move and halfmove clock, and has no memory.
func VpH_C17_indep() {
	b, _ := vpSetup()
	c := &Coefficients
	e := Eval(b, c)
	vp.Assert(Eval(board.VpScramble(b), c) == e, "evaluation-ignores-rights-en-passant-fullmove-history")
	vp.Assert(Eval(b, c) == e, "evaluation-has-no-memory")
	vp.Cover("end")
}

// VpH_C17_terms: every group of evaluation terms is colour-symmetric: computed on the mirror image it gives the
// same numbers with the colours exchanged. part selects the group (0 placement-based terms, 1..4 king-attack groups).
func VpH_C17_terms() {
	b, m := vpSetup()
	c := &Coefficients
	part := vp.Param("part")
	sp, ka := vpTerms(b, c, part)
	sm, km := vpTerms(m, c, part)
	if part == 0 {
		vp.Assert(sp.mg[White] == sm.mg[Black] && sp.mg[Black] == sm.mg[White], "middlegame-placement-terms-symmetric")
		vp.Assert(sp.eg[White] == sm.eg[Black] && sp.eg[Black] == sm.eg[White], "endgame-placement-terms-symmetric")
		vp.Assert(sp.phase == sm.phase, "phase-symmetric")
	} else {
		vp.Assert(ka.score[0][White] == km.score[0][Black] && ka.score[0][Black] == km.score[0][White], "middlegame-king-attack-terms-symmetric")
		vp.Assert(ka.score[1][White] == km.score[1][Black] && ka.score[1][Black] == km.score[1][White], "endgame-king-attack-terms-symmetric")
	}
	vp.Cover("end")
}

// VpH_C17_combine: the final combination (king-attack sigmoid, tapering by phase and halfmove clock, mover's point of
// view) and the two special endings are symmetric functions of symmetric inputs: arbitrary term totals, exchanged
// between the colours together with the side to move, give the same score.
func VpH_C17_combine() {
	stm := Color(vp.Param("stm"))
	var x, y scorePair[Score]
	var kx, ky kingAttacks[Score]
	for col := White; col <= Black; col++ {
		x.mg[col] = Score(vp.BitsI("mg", int(col), 16))
		x.eg[col] = Score(vp.BitsI("eg", int(col), 16))
		y.mg[col^1], y.eg[col^1] = x.mg[col], x.eg[col]
		for ph := 0; ph < 2; ph++ {
			kx.score[ph][col] = Score(vp.BitsI("ka", ph*2+int(col), 16))
			ky.score[ph][col^1] = kx.score[ph][col]
		}
	}
	x.phase = int(vp.Bits("phase", 8))
	y.phase = x.phase
	bx, by := &board.Board{}, &board.Board{}
	bx.STM, by.STM = stm, stm^1
	bx.FiftyCnt = Depth(vp.Bits("fifty", 7))
	by.FiftyCnt = bx.FiftyCnt
	x.addKingAttacks(kx)
	y.addKingAttacks(ky)
	vp.Assert(x.taperedScore(bx) == y.taperedScore(by), "tapered-combination-symmetric")
	vp.Assert(x.endgameScore(bx) == y.endgameScore(by), "endgame-combination-symmetric")
	vp.Cover("end")
}


// VpH_C17_minor: the REAL Eval as a whole on every position with the two kings and up to three minor pieces (any
// mix of knights and bishops of either colour on any squares): this class contains every insufficient-material
// position and the knight+bishop mating ending, i.e. all of Eval's special paths. The mirror image evaluates to the
// same score from the mover's point of view.
func VpH_C17_minor() {
	stm := Color(vp.Param("stm"))
	b := board.VpSymBoardMinors(stm, vp.Param("wk"), vp.Param("bk"), 3)
	c := &Coefficients
	m := board.VpMirror(b)
	special := KNBvK(b) || insufficientMat(b)
	if special {
		vp.Cover("special-path")
	}
	vp.Assert(Eval(b, c) == Eval(m, c), "minor-piece-endings-whole-evaluation-symmetric")
	vp.Cover("end")
}

// vpSpecial is Eval's path on the special material classes, built from the repository's own functions.
func vpSpecial(b *board.Board, c *CoeffSet[Score]) Score {
	if insufficientMat(b) {
		return 0
	}
	sp := scorePair[Score]{}
	sp.addPieceValues(b, c)
	sp.KNBvK(b, c)
	return sp.endgameScore(b)
}

// VpH_C17_special: every position with the two kings and up to three minor pieces (any mix of knights and bishops
// of either colour on any squares) that falls into one of Eval's special material classes (insufficient material,
// knight+bishop against the bare king): the special path is colour-symmetric (the mirror image scores the same from
// the mover's point of view); VpH_C17_path shows that the REAL Eval computes the special path there.
func VpH_C17_special() {
	stm := Color(vp.Param("stm"))
	b := board.VpSymBoardMinors(stm, vp.Param("wk"), vp.Param("bk"), 3)
	m := board.VpMirror(b)
	c := &Coefficients
	vp.Assume(KNBvK(b) || insufficientMat(b))
	vp.Assert(KNBvK(m) == KNBvK(b) && insufficientMat(m) == insufficientMat(b), "special-material-classes-symmetric")
	vp.Assert(vpSpecial(b, c) == vpSpecial(m, c), "special-endings-symmetric")
	vp.Cover("end")
}

// VpH_C17_path: on each special material class the REAL Eval computes exactly the special path (class 0:
// insufficient material -> 0; class 1: knight+bishop against the bare king).
func VpH_C17_path() {
	stm := Color(vp.Param("stm"))
	b := board.VpSymBoardMinors(stm, vp.Param("wk"), vp.Param("bk"), 3)
	c := &Coefficients
	if vp.Param("class") == 0 {
		vp.Assume(insufficientMat(b))
	} else {
		vp.Assume(!insufficientMat(b))
		vp.Assume(KNBvK(b))
	}
	vp.Assert(Eval(b, c) == vpSpecial(b, c), "special-endings-path-is-what-eval-computes")
	vp.Cover("end")
}

// VpH_C17_whole: the whole-Eval miter on general material (diagnostic: does not close within the time budget).
func VpH_C17_whole() {
	b, m := vpSetup()
	c := &Coefficients
	vp.Assert(Eval(b, c) == Eval(m, c), "whole-evaluation-symmetric")
	vp.Cover("end")
}
