package tuning

import (
	"github.com/paulsonkoly/chess-3/vp"
)

// VpH_C20_batches: for every line count up to the bound, the batches are consecutive, non-empty and tile [0,n).
func VpH_C20_batches() {
	n := int(vp.Bits("n", 20))
	vp.Assume(n >= 1)
	vp.Assume(n <= vp.Param("maxn"))
	next := 0
	count := 0
	ok := true
	Batches(n)(func(r Range) bool {
		if r.Start != next || r.End <= r.Start || r.End > n {
			ok = false
		}
		next = r.End
		count++
		return true
	})
	vp.Assert(ok, "batches-consecutive-and-non-empty")
	vp.Assert(next == n, "batches-cover-exactly-the-index-range")
	vp.Cover("end")
}

// VpH_C20_chunks: for every batch of at most NumLinesInBatch lines anywhere in the index space, the chunks are
// consecutive, non-empty and tile the batch.
func VpH_C20_chunks() {
	start := int(vp.Bits("start", 40))
	length := int(vp.Bits("len", 20))
	vp.Assume(length >= 1)
	vp.Assume(length <= NumLinesInBatch)
	b := Range{Start: start, End: start + length}
	next := b.Start
	ok := true
	Chunks(b)(func(r Range) bool {
		if r.Start != next || r.End <= r.Start || r.End > b.End {
			ok = false
		}
		next = r.End
		return true
	})
	vp.Assert(ok, "chunks-consecutive-and-non-empty")
	vp.Assert(next == b.End, "chunks-cover-exactly-the-batch")
	vp.Cover("end")
}
