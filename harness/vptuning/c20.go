package tuning

import (
	"github.com/paulsonkoly/chess-3/vp"
)

// VpH_C20_batches: for every line count, the batches are consecutive, non-empty and tile [0,n). Direct check for
// n up to the driver's bound (loop unrolled), plus the same induction as for the chunks with an arbitrary total.
func VpH_C20_batches() {
	n := int(vp.Bits("n", 20))
	vp.Assume(n >= 1)
	vp.Assume(n <= vp.Param("maxn"))
	next := 0
	ok := true
	Batches(n)(func(r Range) bool {
		if r.Start != next || r.End <= r.Start || r.End > n {
			ok = false
		}
		next = r.End
		return true
	})
	vp.Assert(ok, "batches-consecutive-and-non-empty")
	vp.Assert(next == n, "batches-cover-exactly-the-index-range")
	vp.Cover("end")
}

// VpH_C20_chunks: for every batch of at most NumLinesInBatch lines anywhere in the index space, the chunks are
// consecutive, non-empty and tile the batch. Decided by induction on the real iterator: (1) the first chunk of an
// arbitrary range [s,e) is [s, min(s+c, e)) and non-empty, (2) the rest of the iteration over [s,e) is the iteration
// over [s+c, e) (the second chunk of [s,e) is the first chunk of [s+c,e), and the iterator stops after the first
// chunk exactly when s+c >= e). The same scheme is used for Batches.
func VpH_C20_chunks() {
	s := int(vp.Bits("s", 40))
	length := int(vp.Bits("len", 20))
	vp.Assume(length >= 1)
	vp.Assume(length <= NumLinesInBatch)
	e := s + length
	c := (NumLinesInBatch + NumChunksInBatch - 1) / NumChunksInBatch

	var got [2]Range
	n := 0
	Chunks(Range{Start: s, End: e})(func(r Range) bool {
		got[n] = r
		n++
		return n < 2
	})
	vp.Assert(n >= 1, "a-non-empty-batch-yields-a-chunk")
	vp.Assert(got[0].Start == s && got[0].End == min(s+c, e) && got[0].End > got[0].Start, "first-chunk-starts-the-batch-and-is-non-empty")
	vp.Assert((n == 2) == (s+c < e), "iteration-continues-iff-lines-remain")

	// the tail of the iteration is the iteration over the rest
	var tail [1]Range
	m := 0
	if s+c < e {
		Chunks(Range{Start: s + c, End: e})(func(r Range) bool {
			tail[m] = r
			m++
			return false
		})
		vp.Assert(m == 1 && n == 2 && got[1] == tail[0], "second-chunk-is-first-chunk-of-the-rest")
	}
	vp.Cover("end")
}
