package movegen

import (
	"github.com/paulsonkoly/chess-3/board"
	. "github.com/paulsonkoly/chess-3/chess"
	"github.com/paulsonkoly/chess-3/move"
	"github.com/paulsonkoly/chess-3/vp"
)

// vpGenCount is the number of times the two generator halves emit exactly the encoding t for position b.
// Natively it runs the real generators into a real store; under the engine it is intercepted: the generators are
// executed symbolically with move.Store.Alloc observed, and the count is the sum of the emission guards.
func vpGenCount(b *board.Board, t move.Move) int {
	ms := move.NewStore()
	ms.Push()
	GenNoisy(ms, b)
	GenNotNoisy(ms, b)
	n := 0
	for _, w := range ms.Frame() {
		if w.Move == t {
			n++
		}
	}
	return n
}

// VpH_C05: for an arbitrary valid position and every encoding with the driver's from-square (all 64 to-squares x all
// 8 values of the promotion bits, symbolic), IsPseudoLegal accepts it iff the generator emits it; and (C01) the
// generator emits it at most once and exactly when the FIDE mailbox specification says it is pseudo-legal.
func VpH_C05() {
	stm := Color(vp.Param("stm"))
	from := vp.Param("from")
	b := board.VpSymBoard(stm)
	vp.Assume(board.VpValid(b))
	to := int(vp.Bits("to", 6))
	promo := Piece(vp.Bits("promo", 3))
	t := board.VpMove(from, to, promo)

	cnt := vpGenCount(b, t)
	vp.Assert(b.IsPseudoLegal(t) == (cnt >= 1), "ispseudolegal-iff-generated")

	if vp.Param("with_spec") == 1 {
		spec := false
		for tt := 0; tt < 64; tt++ {
			if tt == to {
				spec = board.VpPseudoLegal(b, from, tt, promo)
			}
		}
		vp.Assert(cnt <= 1, "no-move-generated-twice")
		vp.Assert((cnt >= 1) == spec, "generated-iff-fide-pseudo-legal")
	}
	vp.Cover("end")
}

// vpGenCountNoisy / vpGenCountQuiet: how often GenNoisy resp. GenNotNoisy emits exactly the encoding t (same
// interception as vpGenCount).
func vpGenCountNoisy(b *board.Board, t move.Move) int {
	ms := move.NewStore()
	ms.Push()
	GenNoisy(ms, b)
	n := 0
	for _, w := range ms.Frame() {
		if w.Move == t {
			n++
		}
	}
	return n
}

func vpGenCountQuiet(b *board.Board, t move.Move) int {
	ms := move.NewStore()
	ms.Push()
	GenNotNoisy(ms, b)
	n := 0
	for _, w := range ms.Frame() {
		if w.Move == t {
			n++
		}
	}
	return n
}

// VpH_C16_split: the generator halves split the pseudo-legal moves the way the picker's stage contracts say:
// everything GenNoisy emits is a capture (incl. en passant) or a promotion, nothing GenNotNoisy emits is.
func VpH_C16_split() {
	stm := Color(vp.Param("stm"))
	from := vp.Param("from")
	b := board.VpSymBoard(stm)
	vp.Assume(board.VpValid(b))
	to := int(vp.Bits("to", 6))
	promo := Piece(vp.Bits("promo", 3))
	t := board.VpMove(from, to, promo)
	noisy := board.VpNoisy(b, t)
	if vpGenCountNoisy(b, t) >= 1 {
		vp.Assert(noisy, "noisy-half-emits-only-captures-and-promotions")
	}
	if vpGenCountQuiet(b, t) >= 1 {
		vp.Assert(!noisy, "quiet-half-emits-no-capture-or-promotion")
	}
	vp.Cover("end")
}
