package movegen

import (
	"fmt"

	"github.com/paulsonkoly/chess-3/board"
	. "github.com/paulsonkoly/chess-3/chess"
	"github.com/paulsonkoly/chess-3/move"
	"github.com/paulsonkoly/chess-3/vp"
)

func vpGenAll(b *board.Board) []move.Move {
	ms := move.NewStore()
	ms.Push()
	GenNoisy(ms, b)
	GenNotNoisy(ms, b)
	var out []move.Move
	for _, w := range ms.Frame() {
		out = append(out, w.Move)
	}
	return out
}

// vpValidatePos compares the mailbox specification layer with the engine on one concrete position.
func vpValidatePos(b *board.Board, n *int) {
	fen := b.FEN()
	if !board.VpValid(b) || !board.VpRI(b) {
		return // outside the properties' domain (some test positions are deliberately irregular)
	}
	*n++
	gen := map[move.Move]int{}
	for _, m := range vpGenAll(b) {
		gen[m]++
	}
	legal := 0
	for m := range gen {
		from, to, promo := int(m.From()), int(m.To()), m.Promo()
		cp := *b
		cp.ResetHash()
		cp.MakeMove(m)
		ok := !cp.InCheck(cp.STM.Flip())
		if ok {
			legal++
		}
		if board.VpLegal(b, from, to, promo) != ok {
			vp.Disagree(fmt.Sprintf("legality %s %v", fen, m))
		}
		want := board.VpMakeSpec(b, from, to, promo)
		if !board.VpSameAs(&cp, &want) {
			vp.Disagree(fmt.Sprintf("successor %s %v", fen, m))
		}
	}
	for from := 0; from < 64; from++ {
		for to := 0; to < 64; to++ {
			for _, promo := range []Piece{NoPiece, Knight, Bishop, Rook, Queen} {
				m := board.VpMove(from, to, promo)
				if board.VpPseudoLegal(b, from, to, promo) != (gen[m] > 0) {
					vp.Disagree(fmt.Sprintf("pseudo-legality %s %v", fen, m))
				}
			}
		}
	}
	K := int((b.Pieces[King] & b.Colors[b.STM]).LowestSet())
	epOK := b.EnPassant == 0 || board.VpEPCapturable(b, K)
	if board.VpHasLegalMove(b, K) != (legal > 0) {
		vp.Disagree(fmt.Sprintf("has-legal-move %s", fen))
	}
	if board.VpAttacked(b, b.STM^1, K) != b.InCheck(b.STM) {
		vp.Disagree(fmt.Sprintf("in-check %s", fen))
	}
	_ = epOK
}

// VpV_Corpus validates the specification layer natively on the repository's own test positions and on every
// position one legal move away from them.
func VpV_Corpus() {
	n := 0
	for _, fen := range vp.Corpus() {
		b, err := board.FromFEN(fen)
		if err != nil || b.InvalidPieceCount() {
			continue
		}
		vpValidatePos(b, &n)
		for _, m := range vpGenAll(b) {
			cp := *b
			cp.ResetHash()
			cp.MakeMove(m)
			if cp.InCheck(cp.STM.Flip()) {
				continue
			}
			vpValidatePos(&cp, &n)
		}
	}
	fmt.Println("VP-CORPUS-POSITIONS", n)
}
