package board

// Specification of "the side to move has at least one legal move", for a position whose mover's king stands on the
// (concrete) square K. Independent of the engine's generator, filter and of IsCheckmate/IsStalemate: FIDE
// pseudo-legality by VpPseudoLegal, king safety after the move by explicit ray walks from the king square.

import (
	. "github.com/paulsonkoly/chess-3/chess"
)

// vpRayHitAfter: walking from square k0 (exclusive) in direction d in the position after a move that vacates `gone1`
// and `gone2` (-1 = none) and puts an own piece on `block` (-1 = none): is the first piece met an enemy slider of the
// matching kind (or the enemy king at distance one)?
func vpRayHitAfter(m *VpPos, enemyBlack bool, k0, d, gone1, gone2, block int) bool {
	f0, r0 := k0&7, k0>>3
	df, dr := vpDirs[d][0], vpDirs[d][1]
	hit := false
	blocked := false
	for k := 1; k <= 7; k++ {
		f, r := f0+k*df, r0+k*dr
		if !vpOn(f, r) {
			break
		}
		s := r*8 + f
		if s == gone1 || s == gone2 {
			continue
		}
		if s == block {
			break
		}
		if !blocked {
			p := m.P[s]
			enemy := p != NoPiece && m.Black[s] == enemyBlack
			slider := p == Queen || (d < 4 && p == Rook) || (d >= 4 && p == Bishop)
			if enemy && (slider || (k == 1 && p == King)) {
				hit = true
			}
			if p != NoPiece {
				blocked = true
			}
		}
	}
	return hit
}

func vpOnRay(k0, d, s int) bool {
	if s < 0 {
		return false
	}
	f0, r0 := k0&7, k0>>3
	for k := 1; k <= 7; k++ {
		f, r := f0+k*vpDirs[d][0], r0+k*vpDirs[d][1]
		if !vpOn(f, r) {
			return false
		}
		if r*8+f == s {
			return true
		}
	}
	return false
}

// vpLeaperHitAfter: an enemy knight or pawn attacks square k0 after the move; pieces standing on `capt1`/`capt2`
// (the captured piece's squares, -1 = none) no longer count.
func vpLeaperHitAfter(m *VpPos, enemyBlack bool, k0, capt1, capt2 int) bool {
	f0, r0 := k0&7, k0>>3
	hit := false
	for d := 0; d < 8; d++ {
		f, r := f0+vpKnight[d][0], r0+vpKnight[d][1]
		if vpOn(f, r) {
			s := r*8 + f
			if s != capt1 && s != capt2 && m.P[s] == Knight && m.Black[s] == enemyBlack {
				hit = true
			}
		}
	}
	pr := r0 - 1
	if enemyBlack {
		pr = r0 + 1
	}
	if pr >= 0 && pr <= 7 {
		for _, df := range [2]int{-1, 1} {
			f := f0 + df
			if f >= 0 && f <= 7 {
				s := pr*8 + f
				if s != capt1 && s != capt2 && m.P[s] == Pawn && m.Black[s] == enemyBlack {
					hit = true
				}
			}
		}
	}
	return hit
}

// vpKingSafeAfter: after a non-king move from->to (capturing what stood on `to`, and the pawn on `victim` if >= 0)
// the mover's king on K is not attacked. base[d] is the pre-move ray status, reused for rays the move does not touch.
func vpKingSafeAfter(m *VpPos, enemyBlack bool, K, from, to, victim int, base *[8]bool) bool {
	att := vpLeaperHitAfter(m, enemyBlack, K, to, victim)
	for d := 0; d < 8; d++ {
		if vpOnRay(K, d, from) || vpOnRay(K, d, to) || vpOnRay(K, d, victim) {
			if vpRayHitAfter(m, enemyBlack, K, d, from, victim, to) {
				att = true
			}
		} else if base[d] {
			att = true
		}
	}
	return !att
}

func vpBaseRays(m *VpPos, enemyBlack bool, K int) [8]bool {
	var base [8]bool
	for d := 0; d < 8; d++ {
		base[d] = vpRayHitAfter(m, enemyBlack, K, d, -1, -1, -1)
	}
	return base
}

// VpEPCapturable: some pawn of the side to move (king on K) can legally capture en passant on the recorded target.
func VpEPCapturable(b *Board, K int) bool {
	m := VpMailbox(b)
	stm := b.STM
	enemyBlack := stm == White
	base := vpBaseRays(&m, enemyBlack, K)
	rank, fromRank, vd := 5, 4, -8
	if stm == Black {
		rank, fromRank, vd = 2, 3, 8
	}
	ok := false
	for f := 0; f < 8; f++ {
		t := rank*8 + f
		if int(b.EnPassant) != t {
			continue
		}
		for _, df := range [2]int{-1, 1} {
			ff := f + df
			if ff < 0 || ff > 7 {
				continue
			}
			from := fromRank*8 + ff
			if VpPseudoLegal(b, from, t, NoPiece) && m.P[from] == Pawn && vpKingSafeAfter(&m, enemyBlack, K, from, t, t+vd, &base) {
				ok = true
			}
		}
	}
	return ok
}

// VpHasLegalMove: the side to move, whose king is on K, has a legal move.
func VpHasLegalMove(b *Board, K int) bool {
	m := VpMailbox(b)
	stm := b.STM
	enemyBlack := stm == White
	base := vpBaseRays(&m, enemyBlack, K)
	has := false
	last := 7
	if stm == Black {
		last = 0
	}
	for from := 0; from < 64; from++ {
		for to := 0; to < 64; to++ {
			if from == to {
				continue
			}
			df, dr := to&7-from&7, to>>3-from>>3
			adf, adr := vpAbsI(df), vpAbsI(dr)
			line := df == 0 || dr == 0 || adf == adr
			knight := (adf == 1 && adr == 2) || (adf == 2 && adr == 1)
			if !line && !knight {
				continue
			}
			// pseudo-legal with some promotion choice
			pl := VpPseudoLegal(b, from, to, NoPiece)
			if to>>3 == last && adf <= 1 && adr == 1 {
				pl = pl || VpPseudoLegal(b, from, to, Queen)
			}
			var safe bool
			if from == K {
				if adf == 2 {
					safe = true // castling: its own conditions (in VpPseudoLegal) include the destination
				} else {
					// king step: attack on `to` with the king lifted off K and whatever stood on `to` captured
					att := vpLeaperHitAfter(&m, enemyBlack, to, to, -1)
					for d := 0; d < 8; d++ {
						if vpRayHitAfter(&m, enemyBlack, to, d, K, -1, -1) {
							att = true
						}
					}
					safe = !att
				}
			} else {
				safe = vpKingSafeAfter(&m, enemyBlack, K, from, to, -1, &base)
				// en-passant capture: the pawn behind the target disappears as well
				epRank, vd := 5, -8
				if stm == Black {
					epRank, vd = 2, 8
				}
				if adf == 1 && adr == 1 && to>>3 == epRank {
					isEP := m.P[from] == Pawn && b.EnPassant != 0 && int(b.EnPassant) == to
					if isEP {
						safe = vpKingSafeAfter(&m, enemyBlack, K, from, to, to+vd, &base)
					}
				}
			}
			if pl && safe {
				has = true
			}
		}
	}
	return has
}
