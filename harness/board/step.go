package board

import (
	. "github.com/paulsonkoly/chess-3/chess"
	"github.com/paulsonkoly/chess-3/move"
	"github.com/paulsonkoly/chess-3/vp"
)

type vpStep struct {
	b        *Board
	stm      Color
	from, to int
	promo    Piece
	m        move.Move
}

// vpStepSetup: an arbitrary valid position with a consistent hash history, and the driver's concrete move.
func vpStepSetup() vpStep {
	var s vpStep
	s.stm = Color(vp.Param("stm"))
	s.from, s.to, s.promo = vp.Param("from"), vp.Param("to"), Piece(vp.Param("promo"))
	s.b = VpSymBoard(s.stm)
	vp.Assume(VpValid(s.b))
	VpSetHistory(s.b, vp.Param("hist"))
	s.m = VpMove(s.from, s.to, s.promo)
	return s
}

// VpH_C02_step: the successor position of every legal move is the one the rules prescribe.
func VpH_C02_step() {
	s := vpStepSetup()
	b := s.b
	if vp.Param("excl_fifty-clock-wrap") == 1 {
		vp.Assume(b.FiftyCnt <= 126)
	}
	vp.Assume(VpLegal(b, s.from, s.to, s.promo))
	want := VpMakeSpec(b, s.from, s.to, s.promo)
	piece := b.SquaresToPiece[s.from]
	isEP := piece == Pawn && b.EnPassant != 0 && int(b.EnPassant) == s.to && s.from&7 != s.to&7
	capture := !vpEmpty(b, s.to) || isEP
	oldCastles, oldFifty, oldFull := b.Castles, b.FiftyCnt, b.fullMoves

	b.MakeMove(s.m)

	vp.Assert(VpSameAs(b, &want), "placement-as-prescribed")
	vp.Assert(b.STM == s.stm^1, "side-to-move-flipped")

	touched := func(sq Square) bool { return s.from == int(sq) || s.to == int(sq) }
	wantC := oldCastles
	if touched(E1) {
		wantC &^= ShortWhite | LongWhite
	}
	if touched(H1) {
		wantC &^= ShortWhite
	}
	if touched(A1) {
		wantC &^= LongWhite
	}
	if touched(E8) {
		wantC &^= ShortBlack | LongBlack
	}
	if touched(H8) {
		wantC &^= ShortBlack
	}
	if touched(A8) {
		wantC &^= LongBlack
	}
	vp.Assert(b.Castles == wantC, "castling-rights-as-prescribed")

	if piece == Pawn || capture {
		vp.Assert(b.FiftyCnt == 0, "halfmove-clock-reset")
	} else {
		vp.Assert(int(b.FiftyCnt) == int(oldFifty)+1, "halfmove-clock-incremented")
	}
	wantFull := oldFull
	if s.stm == Black {
		wantFull++
	}
	vp.Assert(b.fullMoves == wantFull, "fullmove-number-as-prescribed")

	wantEP := vpWantEP(&want, s.stm, s.from, s.to, piece)
	vp.Assert(int(b.EnPassant) == wantEP, "en-passant-target-iff-legal-capture-exists")
	// (the piece-count clause is invariant under the placement change asserted above: a capture removes a piece,
	// a promotion turns a pawn into a piece; it is not re-asserted because it is a cardinality argument)
	vp.Assert(VpValidCore(b), "successor-is-a-valid-position")
	vp.Cover("end")
}

// VpH_C01_filter: for every pseudo-legal move, the engine's legality filter (make the move, test whether the
// mover's king is attacked) agrees with FIDE legality.
func VpH_C01_filter() {
	s := vpStepSetup()
	b := s.b
	vp.Assume(VpPseudoLegal(b, s.from, s.to, s.promo))
	want := VpMakeSpec(b, s.from, s.to, s.promo)
	legal := !VpKingAttackedM(&want, s.stm == Black)
	b.MakeMove(s.m)
	rejected := b.InCheck(b.STM.Flip())
	vp.Assert(rejected == !legal, "filter-rejects-exactly-the-illegal-moves")
	vp.Cover("end")
}

// VpH_C03_undo: make followed by undo restores every attribute, for every pseudo-legal move (legal or not).
func VpH_C03_undo() {
	s := vpStepSetup()
	b := s.b
	vp.Assume(VpPseudoLegal(b, s.from, s.to, s.promo))
	snap := VpSnap(b)
	r := b.MakeMove(s.m)
	vp.Assert(len(b.hashes) == snap.N+1, "make-pushes-one-history-entry")
	b.UndoMove(s.m, r)
	vp.Assert(VpSameSnapshot(b, &snap), "undo-restores-every-attribute")
	vp.Cover("end")
}

// VpH_C03_null: null move made and undone restores every attribute.
func VpH_C03_null() {
	stm := Color(vp.Param("stm"))
	b := VpSymBoard(stm)
	vp.Assume(VpValid(b))
	VpSetHistory(b, vp.Param("hist"))
	snap := VpSnap(b)
	r := b.MakeNullMove()
	vp.Assert(len(b.hashes) == snap.N+1, "null-make-pushes-one-history-entry")
	b.UndoNullMove(r)
	vp.Assert(VpSameSnapshot(b, &snap), "null-undo-restores-every-attribute")
	vp.Cover("end")
}

// VpH_C04_hash: after any pseudo-legal move from a consistent state the incremental hash equals the
// from-scratch hash and the three placement encodings agree.
func VpH_C04_hash() {
	s := vpStepSetup()
	b := s.b
	vp.Assume(VpPseudoLegal(b, s.from, s.to, s.promo))
	b.MakeMove(s.m)
	vp.Assert(b.Hash() == b.calculateHash(), "incremental-hash-equals-from-scratch")
	vp.Assert(VpRI(b), "placement-encodings-agree")
	vp.Cover("end")
}

// VpH_C04_null: same for the null move.
func VpH_C04_null() {
	stm := Color(vp.Param("stm"))
	b := VpSymBoard(stm)
	vp.Assume(VpValid(b))
	VpSetHistory(b, vp.Param("hist"))
	b.MakeNullMove()
	vp.Assert(b.Hash() == b.calculateHash(), "null-incremental-hash-equals-from-scratch")
	vp.Assert(VpRI(b), "null-placement-encodings-agree")
	vp.Assert(b.STM == stm^1 && b.EnPassant == 0, "null-passes-the-move-and-clears-ep")
	vp.Cover("end")
}

// VpH_C04_function: the from-scratch hash depends only on placement, side to move, castling rights and the
// en-passant target (two boards differing in everything else hash alike).
func VpH_C04_function() {
	stm := Color(vp.Param("stm"))
	b := VpSymBoard(stm)
	h1 := b.calculateHash()
	b.FiftyCnt = Depth(vp.Bits("fifty2", 7))
	b.fullMoves = int(vp.Bits("fullmoves2", 31))
	VpSetHistory(b, 2)
	h2 := b.calculateHash()
	vp.Assert(h1 == h2, "hash-is-a-function-of-the-position")
	vp.Cover("end")
}

// VpH_C02_castles: the castling-rights update for EVERY (from, to) at once (both squares symbolic): after any move
// of an own piece that does not capture a king, exactly the rights whose king or rook home square was touched
// are lost. (The one-step harness asserts the same per concrete (from,to) case; this obligation removes the
// sampling of the case split for this attribute.)
func VpH_C02_castles() {
	stm := Color(vp.Param("stm"))
	b := VpSymBoard(stm)
	vp.Assume(VpValid(b))
	from, to := int(vp.Bits("from", 6)), int(vp.Bits("to", 6))
	promo := Piece(vp.Bits("promo", 3))
	vp.Assume(from != to)
	vp.Assume(vpOwn(b, from, stm))
	vp.Assume(b.SquaresToPiece[to] != King)
	old := b.Castles
	got := b.NewCastles(VpMove(from, to, promo))
	touched := func(sq Square) bool { return from == int(sq) || to == int(sq) }
	wantC := old
	if touched(E1) {
		wantC &^= ShortWhite | LongWhite
	}
	if touched(H1) {
		wantC &^= ShortWhite
	}
	if touched(A1) {
		wantC &^= LongWhite
	}
	if touched(E8) {
		wantC &^= ShortBlack | LongBlack
	}
	if touched(H8) {
		wantC &^= ShortBlack
	}
	if touched(A8) {
		wantC &^= LongBlack
	}
	vp.Assert(got == wantC, "castling-rights-update-for-every-from-to")
	vp.Cover("end")
}

// vpWantEP: the en-passant target the rules prescribe after the move: recorded iff the move was a double pawn push
// and some legal en-passant capture exists in the successor `want`.
func vpWantEP(want *VpPos, stm Color, from, to int, piece Piece) int {
	wantEP := 0
	dbl := piece == Pawn && (to-from == 16 || from-to == 16)
	if dbl {
		target := (from + to) / 2
		oppBlack := stm == White
		for _, df := range [2]int{-1, 1} {
			f := to&7 + df
			if f < 0 || f > 7 {
				continue
			}
			cap := to>>3<<3 + f
			if want.P[cap] == Pawn && want.Black[cap] == oppBlack {
				m2 := *want
				m2.P[cap], m2.Black[cap] = NoPiece, false
				m2.P[to], m2.Black[to] = NoPiece, false
				m2.P[target], m2.Black[target] = Pawn, oppBlack
				if !VpKingAttackedM(&m2, oppBlack) {
					wantEP = target
				}
			}
		}
	}
	return wantEP
}

// VpH_C01_eptarget: positions reached by playing a double pawn push carry an en-passant target exactly when a legal
// en-passant capture exists, so that the capture is (only then) among the playable moves of the successor.
func VpH_C01_eptarget() {
	s := vpStepSetup()
	b := s.b
	vp.Assume(VpLegal(b, s.from, s.to, s.promo))
	want := VpMakeSpec(b, s.from, s.to, s.promo)
	piece := b.SquaresToPiece[s.from]
	wantEP := vpWantEP(&want, s.stm, s.from, s.to, piece)
	b.MakeMove(s.m)
	vp.Assert(int(b.EnPassant) == wantEP, "en-passant-target-iff-legal-capture-exists")
	vp.Cover("end")
}
