package board

import (
	. "github.com/paulsonkoly/chess-3/chess"
	"github.com/paulsonkoly/chess-3/vp"
)

// VpH_C09: for an arbitrary valid position with the mover's king on the driver's square and an engine-normalised
// en-passant state, the direct checkmate / stalemate tests agree with the absence of legal moves.
func VpH_C09() {
	stm := Color(vp.Param("stm"))
	K := vp.Param("king")
	b := VpSymBoard(stm)
	vp.Assume(vpIs(b, K, stm, King))
	vp.Assume(VpValid(b))
	if b.EnPassant != 0 {
		vp.Assume(VpEPCapturable(b, K))
	}
	has := VpHasLegalMove(b, K)
	inCheck := b.InCheck(stm)
	vp.Assert(inCheck == VpAttacked(b, stm^1, K), "in-check-test-agrees-with-geometry")
	if inCheck {
		vp.Assert(b.IsCheckmate() == !has, "checkmate-iff-in-check-and-no-legal-move")
	} else {
		vp.Assert(b.IsStalemate() == !has, "stalemate-iff-not-in-check-and-no-legal-move")
	}
	vp.Cover("end")
}

// VpV_C09_spec validates the has-legal-move specification natively against the real generator and legality
// filter on every position of the given FEN list (called from a generated test, not by the solver).
func VpV_HasLegal(fens []string, legalCount func(b *Board) int) (bad []string) {
	for _, fen := range fens {
		b, err := FromFEN(fen)
		if err != nil {
			bad = append(bad, "unparsable: "+fen)
			continue
		}
		K := int((b.Pieces[King] & b.Colors[b.STM]).LowestSet())
		if VpHasLegalMove(b, K) != (legalCount(b) > 0) {
			bad = append(bad, fen)
		}
	}
	return bad
}
