package board

import (
	. "github.com/paulsonkoly/chess-3/chess"
	"github.com/paulsonkoly/chess-3/vp"
)

func VpH_T2() {
	b := VpSymBoard(Color(0))
	h := b.calculateHash()
	vp.Assert(h != 0, "h")
}
