package board

import (
	. "github.com/paulsonkoly/chess-3/chess"
	"github.com/paulsonkoly/chess-3/vp"
)

const vpFenMax = 40

// VpH_C11_robust: parsing an arbitrary byte string of length <= the driver's bound never panics, and returns either
// an error or a filled board (no-panic is the engine's nopanic obligation over every index, slice and shift).
func VpH_C11_robust() {
	L := vp.Param("maxlen")
	var buf [vpFenMax]byte
	for i := 0; i < L; i++ {
		buf[i] = byte(vp.BitsI("byte", i, 8))
	}
	n := int(vp.Bits("len", 6))
	vp.Assume(n <= L)
	var b Board
	err := ParseFEN(&b, buf[:n])
	if err == nil && vp.Param("panics_only") == 0 {
		vp.Assert(b.fullMoves >= 1 && b.FiftyCnt >= 0 && b.FiftyCnt <= 100, "accepted-counters-in-range")
		vp.Assert(b.STM == White || b.STM == Black, "accepted-side-to-move")
	}
	vp.Cover("end")
}

// VpH_C11_counts: the piece-count plausibility gate never rejects a valid position (its bounds are lower bounds on
// promoted material).
func VpH_C11_counts() {
	b := VpSymBoard(Color(vp.Param("stm")))
	vp.Assume(VpValid(b))
	vp.Assert(!b.InvalidPieceCount(), "piece-count-gate-accepts-every-valid-position")
	vp.Cover("end")
}

// VpH_C11_reuse: the allocation-free parser fills the board it is given from scratch: parsing the same bytes into a
// zero board and into a board that still holds an arbitrary earlier position gives the same verdict and, when
// accepted, the same position (placement, side, rights, en-passant target, both counters).
func VpH_C11_reuse() {
	L := vp.Param("maxlen")
	var buf [vpFenMax]byte
	for i := 0; i < L; i++ {
		buf[i] = byte(vp.BitsI("byte", i, 8))
	}
	n := int(vp.Bits("len", 6))
	vp.Assume(n <= L)
	var fresh Board
	used := VpSymBoard(Color(vp.Bits("oldstm", 1) & 1))
	used.STM = Color(vp.Bits("oldstm2", 1))
	e1 := ParseFEN(&fresh, buf[:n])
	e2 := ParseFEN(used, buf[:n])
	vp.Assert((e1 == nil) == (e2 == nil), "verdict-does-not-depend-on-the-board-passed-in")
	if e1 == nil && e2 == nil {
		same := fresh.SquaresToPiece == used.SquaresToPiece && fresh.Pieces == used.Pieces && fresh.Colors == used.Colors &&
			fresh.STM == used.STM && fresh.Castles == used.Castles && fresh.EnPassant == used.EnPassant &&
			fresh.FiftyCnt == used.FiftyCnt && fresh.fullMoves == used.fullMoves
		vp.Assert(same, "parsed-position-does-not-depend-on-the-board-passed-in")
	}
	vp.Cover("end")
}

// VpH_C11_roundtrip: printing a valid position as FEN and parsing the text back yields the same position (placement in
// all three encodings, side to move, rights, en-passant target, both counters). The position is sparse: both kings on
// the driver's squares, the squares of the driver's mask arbitrary, every other square empty; rights, en-passant
// target and halfmove clock arbitrary, fullmove number 1..8191. (The printer runs on the engine's text model of
// strings.Builder / strconv.Itoa / fmt %c %d; natively it is the real printer.)
func VpH_C11_roundtrip() {
	stm := Color(vp.Param("stm"))
	b := VpSymBoardSparse(stm, vp.Param("wk"), vp.Param("bk"), vp.Param("mask"))
	b.fullMoves = int(vp.Bits("fullmoves13", 13))
	vp.Assume(b.fullMoves >= 1)
	vp.Assume(VpValid(b))
	text := b.FEN()
	vp.Assert(len(text) <= 64, "printed-text-within-the-modelled-length")
	p, err := FromFEN(text)
	vp.Assert(err == nil, "printed-fen-is-accepted")
	if err == nil {
		same := p.SquaresToPiece == b.SquaresToPiece && p.Pieces == b.Pieces && p.Colors == b.Colors
		vp.Assert(same, "round-trip-preserves-placement")
		vp.Assert(p.STM == b.STM && p.Castles == b.Castles && p.EnPassant == b.EnPassant, "round-trip-preserves-side-rights-en-passant")
		vp.Assert(p.FiftyCnt == b.FiftyCnt && p.fullMoves == b.fullMoves, "round-trip-preserves-both-counters")
		// (printing the parsed position returns the same text: FEN() reads exactly the attributes compared above and has
		// no other input, so for canonical texts - prints of valid positions - this follows from the three assertions)
	}
	vp.Cover("end")
}

// VpH_C11_rt_place: placement half of the FEN round trip. The occupied squares are the driver's concrete set (so the
// layout of the printed text - digits and slashes - is concrete), the piece standing on each of them is arbitrary
// (kings on the driver's squares); side to move from the driver, no rights, no en-passant target, counters 0 and 1.
// Printing and parsing back preserves the placement in all three encodings.
func VpH_C11_rt_place() {
	stm := Color(vp.Param("stm"))
	wk, bk := vp.Param("wk"), vp.Param("bk")
	occ := uint64(vp.Param("occ"))
	b := VpSymBoardSparse(stm, wk, bk, int(occ))
	for sq := 0; sq < 64; sq++ {
		if occ>>uint(sq)&1 != 0 && sq != wk && sq != bk {
			vp.Assume(b.SquaresToPiece[sq] != NoPiece)
		}
	}
	b.Castles, b.EnPassant, b.FiftyCnt, b.fullMoves = 0, 0, 0, 1
	text := b.FEN()
	p, err := FromFEN(text)
	vp.Assert(err == nil, "printed-fen-is-accepted")
	if err == nil {
		same := p.SquaresToPiece == b.SquaresToPiece && p.Pieces == b.Pieces && p.Colors == b.Colors
		vp.Assert(same, "round-trip-preserves-placement")
		vp.Assert(p.STM == b.STM && p.Castles == 0 && p.EnPassant == 0 && p.FiftyCnt == 0 && p.fullMoves == 1, "round-trip-preserves-the-concrete-tail")
	}
	vp.Cover("end")
}
