package board

import (
	. "github.com/paulsonkoly/chess-3/chess"
	"github.com/paulsonkoly/chess-3/vp"
)

const vpFenMax = 40

// VpH_C11_robust: parsing an arbitrary byte string of length <= the driver's bound never panics, and returns either
// an error or a filled board (no-panic is the engine's nopanic obligation over every index, slice and shift).
func VpH_C11_robust() {
	L := vp.Param("maxlen")
	var buf [vpFenMax]byte
	for i := 0; i < L; i++ {
		buf[i] = byte(vp.BitsI("byte", i, 8))
	}
	n := int(vp.Bits("len", 6))
	vp.Assume(n <= L)
	var b Board
	err := ParseFEN(&b, buf[:n])
	if err == nil {
		vp.Assert(b.fullMoves >= 1 && b.FiftyCnt >= 0 && b.FiftyCnt <= 100, "accepted-counters-in-range")
		vp.Assert(b.STM == White || b.STM == Black, "accepted-side-to-move")
	}
	vp.Cover("end")
}

// VpH_C11_counts: the piece-count plausibility gate never rejects a valid position (its bounds are lower bounds on
// promoted material).
func VpH_C11_counts() {
	b := VpSymBoard(Color(vp.Param("stm")))
	vp.Assume(VpValid(b))
	vp.Assert(!b.InvalidPieceCount(), "piece-count-gate-accepts-every-valid-position")
	vp.Cover("end")
}
