package board

// Shared specification layer: symbolic board construction, the representation invariant, the validity
// predicate of the properties' quantifier, and mailbox-style FIDE rules (attack relation, pseudo-legality,
// successor position). Deliberately written without bitboard tricks or tables.

import (
	"math/bits"

	. "github.com/paulsonkoly/chess-3/chess"
	"github.com/paulsonkoly/chess-3/move"
	"github.com/paulsonkoly/chess-3/vp"
)

// VpSymBoard builds an arbitrary board: 64 unconstrained 4-bit cells (low 3 bits piece, bit 3 colour) from which
// the three redundant placement encodings are derived, so the representation invariant holds by construction.
// Side to move comes from the driver (case split); castling, e.p., clocks are symbolic. The hash history is empty.
func VpSymBoard(stm Color) *Board {
	b := &Board{}
	var pcs [7][64]bool
	var cols [2][64]bool
	for sq := 0; sq < 64; sq++ {
		c := vp.BitsI("cell", sq, 4)
		p := Piece(c & 7)
		black := c>>3 != 0
		vp.Assume(p != 7)
		vp.Assume(!(p == NoPiece && black))
		b.SquaresToPiece[sq] = p
		for k := Pawn; k <= King; k++ {
			pcs[k][sq] = p == k
		}
		cols[White][sq] = p != NoPiece && !black
		cols[Black][sq] = p != NoPiece && black
	}
	for k := Pawn; k <= King; k++ {
		b.Pieces[k] = BitBoard(vp.Pack64(&pcs[k]))
	}
	b.Colors[White] = BitBoard(vp.Pack64(&cols[White]))
	b.Colors[Black] = BitBoard(vp.Pack64(&cols[Black]))
	b.STM = stm
	b.Castles = Castles(vp.Bits("castles", 4))
	b.EnPassant = Square(vp.Bits("ep", 6))
	b.FiftyCnt = Depth(vp.Bits("fifty", 7))
	b.fullMoves = int(vp.Bits("fullmoves", 31))
	vp.Assume(b.fullMoves >= 1)
	return b
}

// VpSetHistory gives b a hash history of n arbitrary entries followed by the from-scratch hash of b.
func VpSetHistory(b *Board, n int) {
	b.hashes = make([]Hash, 0, 128) // the capacity ResetHash uses
	for i := 0; i < n; i++ {
		b.hashes = append(b.hashes, Hash(vp.BitsI("hist", i, 64)))
	}
	b.hashes = append(b.hashes, b.calculateHash())
}

func vpBit(bb BitBoard, sq int) bool { return bb>>uint(sq)&1 != 0 }

// VpRI: the three encodings of the placement describe one and the same placement.
func VpRI(b *Board) bool {
	ok := b.Colors[White]&b.Colors[Black] == 0 && b.Pieces[NoPiece] == 0
	for sq := 0; sq < 64; sq++ {
		p := b.SquaresToPiece[sq]
		if p > King {
			ok = false
		}
		occ := vpBit(b.Colors[White], sq) || vpBit(b.Colors[Black], sq)
		if occ != (p != NoPiece) {
			ok = false
		}
		for k := Pawn; k <= King; k++ {
			if vpBit(b.Pieces[k], sq) != (p == k) {
				ok = false
			}
		}
	}
	return ok
}

func vpIs(b *Board, sq int, c Color, p Piece) bool {
	return b.SquaresToPiece[sq] == p && vpBit(b.Colors[c], sq)
}

func vpEmpty(b *Board, sq int) bool { return b.SquaresToPiece[sq] == NoPiece }

func vpOwn(b *Board, sq int, c Color) bool {
	return b.SquaresToPiece[sq] != NoPiece && vpBit(b.Colors[c], sq)
}

var vpDirs = [8][2]int{{1, 0}, {-1, 0}, {0, 1}, {0, -1}, {1, 1}, {-1, 1}, {1, -1}, {-1, -1}}
var vpKnight = [8][2]int{{1, 2}, {2, 1}, {2, -1}, {1, -2}, {-1, -2}, {-2, -1}, {-2, 1}, {-1, 2}}

func vpOn(f, r int) bool { return f >= 0 && f <= 7 && r >= 0 && r <= 7 }

// vpSeenT[d][sq] is the cell code (piece | 8 if black, 0 if none) of the first piece met when walking from sq
// (exclusive) in direction d; computed by one recurrence per direction instead of one ray walk per square.
type vpSeenT [8][64]uint8

func vpCode(m *VpPos, sq int) uint8 {
	c := uint8(m.P[sq])
	if m.Black[sq] {
		c |= 8
	}
	return c
}

func vpSeen(m *VpPos) *vpSeenT {
	var s vpSeenT
	for d := 0; d < 8; d++ {
		df, dr := vpDirs[d][0], vpDirs[d][1]
		// squares ordered by their distance to the board edge in direction d
		for dist := 0; dist < 8; dist++ {
			for sq := 0; sq < 64; sq++ {
				f, r := sq&7, sq>>3
				k := 0
				for vpOn(f+(k+1)*df, r+(k+1)*dr) {
					k++
				}
				if k != dist {
					continue
				}
				if dist == 0 {
					s[d][sq] = 0
					continue
				}
				next := (r+dr)*8 + f + df
				c := vpCode(m, next)
				if c&7 != 0 {
					s[d][sq] = c
				} else {
					s[d][sq] = s[d][next]
				}
			}
		}
	}
	return &s
}

// vpAttackedS: is sq attacked by the given colour, FIDE geometry, using the first-piece-seen table.
func vpAttackedS(m *VpPos, s *vpSeenT, byBlack bool, sq int) bool {
	f0, r0 := sq&7, sq>>3
	att := false
	col := uint8(0)
	if byBlack {
		col = 8
	}
	for d := 0; d < 8; d++ {
		c := s[d][sq]
		if c == col|uint8(Queen) || (d < 4 && c == col|uint8(Rook)) || (d >= 4 && c == col|uint8(Bishop)) {
			att = true
		}
		f, r := f0+vpDirs[d][0], r0+vpDirs[d][1]
		if vpOn(f, r) && vpCode(m, r*8+f) == col|uint8(King) {
			att = true
		}
	}
	for d := 0; d < 8; d++ {
		f, r := f0+vpKnight[d][0], r0+vpKnight[d][1]
		if vpOn(f, r) && vpCode(m, r*8+f) == col|uint8(Knight) {
			att = true
		}
	}
	// pawns of the attacking colour capture towards their forward direction
	pr := r0 - 1
	if byBlack {
		pr = r0 + 1
	}
	if pr >= 0 && pr <= 7 {
		if f0 > 0 && vpCode(m, pr*8+f0-1) == col|uint8(Pawn) {
			att = true
		}
		if f0 < 7 && vpCode(m, pr*8+f0+1) == col|uint8(Pawn) {
			att = true
		}
	}
	return att
}

// VpAttacked: is the (concrete) square sq attacked by a piece of colour by.
func VpAttacked(b *Board, by Color, sq int) bool {
	m := VpMailbox(b)
	return vpAttackedS(&m, vpSeen(&m), by == Black, sq)
}

func vpAnyAttacked(b *Board, by Color, a, c, d int) bool {
	m := VpMailbox(b)
	s := vpSeen(&m)
	return vpAttackedS(&m, s, by == Black, a) || vpAttackedS(&m, s, by == Black, c) || vpAttackedS(&m, s, by == Black, d)
}

// VpKingAttacked: some king of colour c stands on a square attacked by the other colour.
func VpKingAttacked(b *Board, c Color) bool {
	m := VpMailbox(b)
	return VpKingAttackedM(&m, c == Black)
}

func vpOneBit(bb BitBoard) bool { return bb != 0 && bb&(bb-1) == 0 }

// VpValid is the validity predicate of the properties' quantifier (RI is separate).
func VpValid(b *Board) bool { return VpValidCore(b) && VpCountsOK(b) }

// VpValidCore is VpValid without the piece-count clause.
func VpValidCore(b *Board) bool {
	ok := true
	// exactly one king per side
	if !vpOneBit(b.Pieces[King]&b.Colors[White]) || !vpOneBit(b.Pieces[King]&b.Colors[Black]) {
		ok = false
	}
	// no pawns on ranks 1/8
	if b.Pieces[Pawn]&(FirstRankBB|EighthRankBB) != 0 {
		ok = false
	}
	// side not to move is not in check
	if VpKingAttacked(b, b.STM^1) {
		ok = false
	}
	// castling rights only with king and rook on their home squares
	if b.Castles&ShortWhite != 0 && !(vpIs(b, int(E1), White, King) && vpIs(b, int(H1), White, Rook)) {
		ok = false
	}
	if b.Castles&LongWhite != 0 && !(vpIs(b, int(E1), White, King) && vpIs(b, int(A1), White, Rook)) {
		ok = false
	}
	if b.Castles&ShortBlack != 0 && !(vpIs(b, int(E8), Black, King) && vpIs(b, int(H8), Black, Rook)) {
		ok = false
	}
	if b.Castles&LongBlack != 0 && !(vpIs(b, int(E8), Black, King) && vpIs(b, int(A8), Black, Rook)) {
		ok = false
	}
	// en-passant target only directly behind a pawn that could just have double-pushed
	if b.EnPassant != 0 && !VpEPGeometry(b) {
		ok = false
	}
	if b.FiftyCnt < 0 {
		ok = false
	}
	return ok
}

func vpCount(bb BitBoard) int { return bits.OnesCount64(uint64(bb)) }

// VpCountsOK: for each side, pawns plus the pieces that can only be promoted pawns number at most eight.
func VpCountsOK(b *Board) bool {
	ok := true
	for c := White; c <= Black; c++ {
		extra := func(p Piece, orig int) int {
			n := vpCount(b.Pieces[p] & b.Colors[c])
			if n > orig {
				return n - orig
			}
			return 0
		}
		promoted := extra(Knight, 2) + extra(Bishop, 2) + extra(Rook, 2) + extra(Queen, 1)
		if vpCount(b.Pieces[Pawn]&b.Colors[c])+promoted > 8 {
			ok = false
		}
	}
	return ok
}

// VpEPGeometry: the recorded e.p. target is on the mover's sixth rank, empty, with an enemy pawn directly in front
// of it (from the mover's view) and the pawn's origin square behind it empty.
func VpEPGeometry(b *Board) bool {
	ok := false
	for t := 16; t < 48; t++ {
		if int(b.EnPassant) != t {
			continue
		}
		r := t >> 3
		if b.STM == White && r == 5 {
			ok = vpEmpty(b, t) && vpEmpty(b, t+8) && vpIs(b, t-8, Black, Pawn)
		}
		if b.STM == Black && r == 2 {
			ok = vpEmpty(b, t) && vpEmpty(b, t-8) && vpIs(b, t+8, White, Pawn)
		}
	}
	return ok
}

// vpPathEmpty: squares strictly between two aligned squares are empty; false if not aligned on a queen line.
func vpPathEmpty(b *Board, from, to int) bool {
	f0, r0, f1, r1 := from&7, from>>3, to&7, to>>3
	df, dr := f1-f0, r1-r0
	if !(df == 0 || dr == 0 || df == dr || df == -dr) || (df == 0 && dr == 0) {
		return false
	}
	sf, sr := 0, 0
	if df > 0 {
		sf = 1
	} else if df < 0 {
		sf = -1
	}
	if dr > 0 {
		sr = 1
	} else if dr < 0 {
		sr = -1
	}
	ok := true
	f, r := f0+sf, r0+sr
	for f != f1 || r != r1 {
		if !vpEmpty(b, r*8+f) {
			ok = false
		}
		f += sf
		r += sr
	}
	return ok
}

func vpAbsI(x int) int {
	if x < 0 {
		return -x
	}
	return x
}

// VpPseudoLegal: FIDE move geometry for the (concrete) from/to squares and promotion piece, ignoring only whether
// the mover's king is left attacked; castling includes its own conditions (rights, empty path, king not in,
// through or into check).
func VpPseudoLegal(b *Board, from, to int, promo Piece) bool {
	stm := b.STM
	if from == to || !vpOwn(b, from, stm) || vpOwn(b, to, stm) {
		return false
	}
	p := b.SquaresToPiece[from]
	f0, r0, f1, r1 := from&7, from>>3, to&7, to>>3
	df, dr := f1-f0, r1-r0
	adf, adr := vpAbsI(df), vpAbsI(dr)
	res := false
	if p == Knight {
		res = (adf == 1 && adr == 2) || (adf == 2 && adr == 1)
	}
	if p == Bishop {
		res = adf == adr && vpPathEmpty(b, from, to)
	}
	if p == Rook {
		res = (df == 0 || dr == 0) && vpPathEmpty(b, from, to)
	}
	if p == Queen {
		res = vpPathEmpty(b, from, to)
	}
	if p == King {
		res = adf <= 1 && adr <= 1
		opp := stm ^ 1
		_ = opp
		if stm == White && from == int(E1) && to == int(G1) {
			res = b.Castles&ShortWhite != 0 && vpEmpty(b, int(F1)) && vpEmpty(b, int(G1)) &&
				!vpAnyAttacked(b, opp, int(E1), int(F1), int(G1))
		}
		if stm == White && from == int(E1) && to == int(C1) {
			res = b.Castles&LongWhite != 0 && vpEmpty(b, int(D1)) && vpEmpty(b, int(C1)) && vpEmpty(b, int(B1)) &&
				!vpAnyAttacked(b, opp, int(E1), int(D1), int(C1))
		}
		if stm == Black && from == int(E8) && to == int(G8) {
			res = b.Castles&ShortBlack != 0 && vpEmpty(b, int(F8)) && vpEmpty(b, int(G8)) &&
				!vpAnyAttacked(b, opp, int(E8), int(F8), int(G8))
		}
		if stm == Black && from == int(E8) && to == int(C8) {
			res = b.Castles&LongBlack != 0 && vpEmpty(b, int(D8)) && vpEmpty(b, int(C8)) && vpEmpty(b, int(B8)) &&
				!vpAnyAttacked(b, opp, int(E8), int(D8), int(C8))
		}
	}
	if p == Pawn {
		dir, home, last := 1, 1, 7
		if stm == Black {
			dir, home, last = -1, 6, 0
		}
		if df == 0 && dr == dir {
			res = vpEmpty(b, to)
		}
		if df == 0 && dr == 2*dir && r0 == home {
			res = vpEmpty(b, to) && vpEmpty(b, from+8*dir)
		}
		if adf == 1 && dr == dir {
			res = vpOwn(b, to, stm^1) || (b.EnPassant != 0 && int(b.EnPassant) == to)
		}
		// promotion piece exactly when reaching the last rank
		if r1 == last {
			if !(promo == Knight || promo == Bishop || promo == Rook || promo == Queen) {
				res = false
			}
		} else if promo != NoPiece {
			res = false
		}
	} else if promo != NoPiece {
		res = false
	}
	return res
}

// VpPos is a mailbox position used by the successor specification.
type VpPos struct {
	P     [64]Piece
	Black [64]bool
}

func VpMailbox(b *Board) VpPos {
	var m VpPos
	for sq := 0; sq < 64; sq++ {
		m.P[sq] = b.SquaresToPiece[sq]
		m.Black[sq] = vpBit(b.Colors[Black], sq)
	}
	return m
}

// VpSameAs: the board's three encodings all describe the mailbox position m.
func VpSameAs(b *Board, m *VpPos) bool {
	ok := VpRI(b)
	for sq := 0; sq < 64; sq++ {
		if b.SquaresToPiece[sq] != m.P[sq] {
			ok = false
		}
		if m.P[sq] != NoPiece && vpBit(b.Colors[Black], sq) != m.Black[sq] {
			ok = false
		}
	}
	return ok
}

// VpMakeSpec: the placement after playing the (pseudo-legal) move, by the rules.
func VpMakeSpec(b *Board, from, to int, promo Piece) VpPos {
	m := VpMailbox(b)
	p := m.P[from]
	black := b.STM == Black
	// en-passant capture removes the pawn behind the target
	if p == Pawn && b.EnPassant != 0 && int(b.EnPassant) == to && from&7 != to&7 {
		victim := to - 8
		if black {
			victim = to + 8
		}
		m.P[victim] = NoPiece
		m.Black[victim] = false
	}
	m.P[from] = NoPiece
	m.Black[from] = false
	put := p
	if promo != NoPiece {
		put = promo
	}
	m.P[to] = put
	m.Black[to] = black
	if p == King && vpAbsI(from&7-to&7) == 2 {
		r := from >> 3 << 3
		if to&7 == 6 {
			m.P[r+7], m.Black[r+7] = NoPiece, false
			m.P[r+5], m.Black[r+5] = Rook, black
		} else {
			m.P[r+0], m.Black[r+0] = NoPiece, false
			m.P[r+3], m.Black[r+3] = Rook, black
		}
	}
	return m
}

// VpKingAttackedM: the king of the given colour is attacked in the mailbox position.
func VpKingAttackedM(m *VpPos, black bool) bool {
	s := vpSeen(m)
	att := false
	for sq := 0; sq < 64; sq++ {
		if m.P[sq] == King && m.Black[sq] == black && vpAttackedS(m, s, !black, sq) {
			att = true
		}
	}
	return att
}

// VpLegal: FIDE legality = pseudo-legal and the mover's king is not attacked afterwards.
func VpLegal(b *Board, from, to int, promo Piece) bool {
	if !VpPseudoLegal(b, from, to, promo) {
		return false
	}
	m := VpMakeSpec(b, from, to, promo)
	return !VpKingAttackedM(&m, b.STM == Black)
}

func VpMove(from, to int, promo Piece) move.Move {
	return move.From(Square(from)) | move.To(Square(to)) | move.Promo(promo)
}

// VpSnapshot is a deep copy of every attribute of a board (C03's observation).
const vpMaxHist = 136

type VpSnapshot struct {
	B      Board
	Hashes [vpMaxHist]Hash
	N      int
}

func VpSnap(b *Board) VpSnapshot {
	var s VpSnapshot
	s.B = *b
	s.N = len(b.hashes)
	for i := 0; i < vpMaxHist; i++ {
		if i < len(b.hashes) {
			s.Hashes[i] = b.hashes[i]
		}
	}
	return s
}

// VpSameSnapshot compares every attribute: placement (three encodings), rights, e.p., both counters, side to
// move, history length and every live history entry.
func VpSameSnapshot(b *Board, s *VpSnapshot) bool {
	ok := b.SquaresToPiece == s.B.SquaresToPiece && b.Pieces == s.B.Pieces && b.Colors == s.B.Colors &&
		b.STM == s.B.STM && b.EnPassant == s.B.EnPassant && b.Castles == s.B.Castles &&
		b.FiftyCnt == s.B.FiftyCnt && b.fullMoves == s.B.fullMoves && len(b.hashes) == s.N
	for i := 0; i < vpMaxHist; i++ {
		if i < s.N && i < len(b.hashes) && b.hashes[i] != s.Hashes[i] {
			ok = false
		}
	}
	return ok
}

// VpNoisy is the specification of the generator's noisy/quiet split: a move is noisy iff it captures (the target
// square is occupied, or it is a pawn taking en passant) or promotes.
func VpNoisy(b *Board, m move.Move) bool {
	from, to := m.From(), m.To()
	if b.SquaresToPiece[to] != NoPiece || m.Promo() != NoPiece {
		return true
	}
	return b.SquaresToPiece[from] == Pawn && b.EnPassant != 0 && to == b.EnPassant && from&7 != to&7
}
