package board

import (
	. "github.com/paulsonkoly/chess-3/chess"
	"github.com/paulsonkoly/chess-3/vp"
)

// VpSymBoardKings is VpSymBoard with both kings on the driver's squares: those two cells are constants and no other
// cell can hold a king (excluded by construction, so king squares and king bitboards are constants for the encoder).
func VpSymBoardKings(stm Color, wk, bk int) *Board {
	return VpSymBoardSparse(stm, wk, bk, -1)
}

// VpSymBoardSparse is VpSymBoardKings with only the squares in mask symbolic; the other squares are empty.
func VpSymBoardSparse(stm Color, wk, bk int, mask int) *Board {
	b := &Board{}
	var pcs [7][64]bool
	var cols [2][64]bool
	for sq := 0; sq < 64; sq++ {
		var p Piece
		var black bool
		switch sq {
		case wk:
			p, black = King, false
		case bk:
			p, black = King, true
		default:
			if uint64(mask)>>uint(sq)&1 == 0 {
				break
			}
			c := vp.BitsI("cell", sq, 4)
			p = Piece(c & 7)
			black = c>>3 != 0
			vp.Assume(p < King)
			vp.Assume(!(p == NoPiece && black))
		}
		b.SquaresToPiece[sq] = p
		for k := Pawn; k <= King; k++ {
			if k == King {
				pcs[k][sq] = sq == wk || sq == bk
			} else {
				pcs[k][sq] = p == k
			}
		}
		cols[White][sq] = p != NoPiece && !black
		cols[Black][sq] = p != NoPiece && black
	}
	for k := Pawn; k <= King; k++ {
		b.Pieces[k] = BitBoard(vp.Pack64(&pcs[k]))
	}
	b.Colors[White] = BitBoard(vp.Pack64(&cols[White]))
	b.Colors[Black] = BitBoard(vp.Pack64(&cols[Black]))
	b.STM = stm
	b.Castles = Castles(vp.Bits("castles", 4))
	b.EnPassant = Square(vp.Bits("ep", 6))
	b.FiftyCnt = Depth(vp.Bits("fifty", 7))
	b.fullMoves = int(vp.Bits("fullmoves", 31))
	vp.Assume(b.fullMoves >= 1)
	return b
}

// VpMirror is the colour-flipped mirror image: ranks flipped, colours and side to move swapped; the clocks are kept.
func VpMirror(b *Board) *Board {
	m := &Board{}
	for sq := 0; sq < 64; sq++ {
		m.SquaresToPiece[sq] = b.SquaresToPiece[sq^56]
	}
	for k := Pawn; k <= King; k++ {
		m.Pieces[k] = vpFlipRanks(b.Pieces[k])
	}
	m.Colors[White] = vpFlipRanks(b.Colors[Black])
	m.Colors[Black] = vpFlipRanks(b.Colors[White])
	m.STM = b.STM ^ 1
	m.FiftyCnt = b.FiftyCnt
	m.fullMoves = b.fullMoves
	return m
}

func vpFlipRanks(x BitBoard) BitBoard {
	var r BitBoard
	for k := 0; k < 8; k++ {
		r |= (x >> (8 * uint(k)) & 0xff) << (8 * uint(7-k))
	}
	return r
}

// VpScramble returns a copy of b that differs in everything the evaluation must not depend on.
func VpScramble(b *Board) *Board {
	c := *b
	c.Castles = Castles(vp.Bits("castles2", 4))
	c.EnPassant = Square(vp.Bits("ep2", 6))
	c.fullMoves = int(vp.Bits("fullmoves2", 31))
	c.hashes = nil
	return &c
}

// VpSetPos / VpGetPos: the opaque position identity used by the abstract search harnesses lives in fullMoves, which
// the search never reads.
func VpSetPos(b *Board, v uint64) { b.fullMoves = int(v) }
func VpGetPos(b *Board) uint64     { return uint64(b.fullMoves) }

// VpSymBoardMinors: both kings on the driver's squares and up to n minor pieces, each of them present or absent, a
// knight or a bishop, of either colour, on an arbitrary free square (all symbolic); every other square is empty.
func VpSymBoardMinors(stm Color, wk, bk, n int) *Board {
	b := &Board{}
	var present, bishop, black [4]bool
	var at [4]int
	for i := 0; i < n; i++ {
		present[i] = vp.BitsI("mpresent", i, 1) == 1
		bishop[i] = vp.BitsI("mbishop", i, 1) == 1
		black[i] = vp.BitsI("mblack", i, 1) == 1
		at[i] = int(vp.BitsI("msq", i, 6))
		vp.Assume(at[i] != wk && at[i] != bk)
		for j := 0; j < i; j++ {
			vp.Assume(!(present[i] && present[j] && at[i] == at[j]))
		}
	}
	var pcs [7][64]bool
	var cols [2][64]bool
	for sq := 0; sq < 64; sq++ {
		p, blk := NoPiece, false
		switch sq {
		case wk:
			p = King
		case bk:
			p, blk = King, true
		default:
			for i := 0; i < n; i++ {
				if present[i] && at[i] == sq {
					p, blk = Knight, black[i]
					if bishop[i] {
						p = Bishop
					}
				}
			}
		}
		b.SquaresToPiece[sq] = p
		for k := Pawn; k <= King; k++ {
			pcs[k][sq] = p == k
		}
		cols[White][sq] = p != NoPiece && !blk
		cols[Black][sq] = p != NoPiece && blk
	}
	for k := Pawn; k <= King; k++ {
		b.Pieces[k] = BitBoard(vp.Pack64(&pcs[k]))
	}
	b.Colors[White] = BitBoard(vp.Pack64(&cols[White]))
	b.Colors[Black] = BitBoard(vp.Pack64(&cols[Black]))
	b.STM = stm
	b.FiftyCnt = Depth(vp.Bits("fifty", 7))
	b.fullMoves = 1
	return b
}
