package board

import (
	. "github.com/paulsonkoly/chess-3/chess"
	"github.com/paulsonkoly/chess-3/vp"
)

// VpH_C10_count: for a history of n arbitrary hashes (n from the driver), the repetition count equals the number of
// earlier occurrences of the current hash plus one, capped at three - under the stated assumptions: (A1) equal hash
// <=> equal position, (A2) positions with different side to move differ, so entries an odd number of plies back never
// equal the current one, (A3) a position cannot recur after exactly two plies, (A4) a position from before the last
// irreversible move cannot recur.
func VpH_C10_count() {
	n := vp.Param("n")
	b := &Board{}
	b.hashes = make([]Hash, 0, 128)
	for i := 0; i < n; i++ {
		b.hashes = append(b.hashes, Hash(vp.BitsI("h", i, 64)))
	}
	cur := b.hashes[n-1]
	// the number of reversible plies played last (A4: a position from before the last irreversible move cannot recur);
	// the board's halfmove clock holds it the way the engine does, in 8 bits
	rc := int(vp.Bits("reversible", 8))
	vp.Assume(rc <= n-1)
	b.FiftyCnt = Depth(int8(rc))
	occ := 1
	for j := 0; j < n-1; j++ {
		back := n - 1 - j
		if back%2 == 1 || back == 2 {
			vp.Assume(b.hashes[j] != cur) // A2, A3
		}
		if back > rc {
			vp.Assume(b.hashes[j] != cur) // A4
		}
		if b.hashes[j] == cur {
			occ++
		}
	}
	want := occ
	if want > 3 {
		want = 3
	}
	vp.Assert(int(b.Threefold()) == want, "repetition-count-equals-occurrences-capped-at-three")
	vp.Cover("end")
}

// VpH_C10_start: loading a position resets the history to exactly the from-scratch hash of that position.
func VpH_C10_start() {
	b := VpSymBoard(Color(vp.Param("stm")))
	VpSetHistory(b, 3)
	b.ResetHash()
	vp.Assert(len(b.hashes) == 1 && b.hashes[0] == b.calculateHash(), "reset-leaves-exactly-the-current-hash")
	vp.Assert(b.Threefold() == 1, "fresh-history-counts-one")
	vp.Cover("end")
}

// VpH_C10_deadep: two valid positions that differ only in a recorded en-passant target that no pawn can use are the
// same position for repetition purposes and must hash alike. (Witness of the known finding: a FEN-loaded dead
// en-passant target is hashed.)
func VpH_C10_deadep() {
	stm := Color(vp.Param("stm"))
	K := vp.Param("king")
	b := VpSymBoard(stm)
	vp.Assume(vpIs(b, K, stm, King))
	vp.Assume(VpValid(b))
	vp.Assume(b.EnPassant != 0)
	vp.Assume(!VpEPCapturable(b, K))
	h1 := b.calculateHash()
	b.EnPassant = 0
	h2 := b.calculateHash()
	vp.Assert(h1 == h2, "dead-en-passant-target-does-not-change-the-position-hash")
	vp.Cover("end")
}
